----------------------------- MODULE Gen_Opaque -----------------------------
(***************************************************************************)
(* Behaviour generator for blocklisted / opaque types (spec -> impl).       *)
(* An inner record I (fields over a small alphabet, optional attribute) is  *)
(* marked blocklisted or opaque and used by a container                      *)
(*   struct C { char pre; I m; I arr[2]; I *p; short post; }                 *)
(* L1 predictions printed with every case:                                   *)
(*  - blocklisted: I is not defined by bindgen, every use still names it;    *)
(*    with a user definition of I's C size/alignment the container has the   *)
(*    C layout;                                                              *)
(*  - opaque: I is a member-less blob of exactly I's C size and alignment,   *)
(*    and the container has the C layout.                                    *)
(***************************************************************************)
EXTENDS CLayout, Json

Ty == [c |-> [size |-> 1, align |-> 1], s |-> [size |-> 2, align |-> 2], i |-> [size |-> 4, align |-> 4],
       d |-> [size |-> 8, align |-> 8], p |-> [size |-> 8, align |-> 8], a |-> [size |-> 3, align |-> 1]]
Codes == DOMAIN Ty
Seqs == UNION {[1..k -> Codes] : k \in 1..2}

VARIABLES codes, attr, mark
vars == <<codes, attr, mark>>
Attrs == {"none", "packed", "aligned16", "aligned32", "pack2"}
(* "blocklist+opaque": both markings name the type; the blocklist decides (never defined, named at its uses, *)
(* nothing derived through it)                                                                             *)
Marks == {"blocklist", "opaque-option", "opaque-annotation", "blocklist+opaque"}

Init == codes \in Seqs /\ attr \in Attrs /\ mark \in Marks
Next == UNCHANGED vars
Spec == Init /\ [][Next]_vars

Inner == [kind |-> "struct",
          fields |-> [j \in 1..Len(codes) |-> [size |-> Ty[codes[j]].size, align |-> Ty[codes[j]].align, maligned |-> 0]],
          packed |-> attr = "packed", pack |-> IF attr = "pack2" THEN 2 ELSE 0,
          aligned |-> CASE attr = "aligned16" -> 16 [] attr = "aligned32" -> 32 [] OTHER -> 0, cxx |-> FALSE]
IL == CLayoutOf(Inner)
F(sz, al) == [size |-> sz, align |-> al, maligned |-> 0]
Container == [kind |-> "struct",
              fields |-> <<F(1, 1), F(IL.size, IL.align), F(2 * IL.size, IL.align), F(8, 8), F(2, 2)>>,
              packed |-> FALSE, pack |-> 0, aligned |-> 0, cxx |-> FALSE]

Emit == PrintT(<<"CASE", ToJson([codes |-> codes, attr |-> attr, mark |-> mark,
                                 inner |-> IL, container |-> CLayoutOf(Container),
                                 defined_by_bindgen |-> mark \notin {"blocklist", "blocklist+opaque"},
                                 blob_only |-> mark \notin {"blocklist", "blocklist+opaque"}])>>)
=============================================================================
