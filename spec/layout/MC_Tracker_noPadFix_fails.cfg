SPECIFICATION Spec
CONSTANTS
  MaxLen = 2
  MaxAttrs = 1
  PadFix = FALSE
INVARIANTS L3
CHECK_DEADLOCK FALSE
