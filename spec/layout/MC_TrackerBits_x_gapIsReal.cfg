SPECIFICATION Spec
CONSTANTS
    Variant = "code"
    TailFix = TRUE
    MaxLen = 3
    EmitDecls = FALSE
INVARIANTS GapNeverMisplaces
CHECK_DEADLOCK FALSE
