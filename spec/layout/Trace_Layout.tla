---------------------------- MODULE Trace_Layout ----------------------------
(* Trace validation of composite layout: each record is one struct/union the  *)
(* real bindgen emitted (fields with the layout of their types, repr          *)
(* attributes) together with clang's size, alignment and member offsets.      *)
(* RustLayout.tla computes what rustc will make of the emitted type; it must  *)
(* be what clang says.                                                         *)
EXTENDS RustLayout, Json, IOUtils, FiniteSets

Rec == ndJsonDeserialize(IOEnv.TRACE)
VARIABLES l, viol
vars == <<l, viol>>
Init == l = 1 /\ viol = <<>>

Check(e) ==
  LET r == [kind |-> e.kind, fields |-> e.fields, packed |-> e.packed, align |-> e.align]
      lay == RLayoutOf(r)
      badoff == {j \in DOMAIN e.fields : e.fields[j].coff >= 0 /\ lay.offsets[j] # e.fields[j].coff}
  IN IF ~RWellFormed(r) THEN <<[what |-> "packed-and-align", case |-> e.case, name |-> e.name, rust |-> 0, c |-> 0]>>
     ELSE IF lay.size # e.csize THEN <<[what |-> "size", case |-> e.case, name |-> e.name, rust |-> lay.size, c |-> e.csize]>>
     ELSE IF lay.align # e.calign THEN <<[what |-> "align", case |-> e.case, name |-> e.name, rust |-> lay.align, c |-> e.calign]>>
     ELSE IF badoff # {} THEN
       LET j == CHOOSE j \in badoff : TRUE IN
       <<[what |-> "offset", case |-> e.case, name |-> e.name \o "." \o e.fields[j].name,
          rust |-> lay.offsets[j], c |-> e.fields[j].coff]>>
     ELSE <<>>

Next == /\ l <= Len(Rec) /\ l' = l + 1
        /\ viol' = IF Len(viol) < 100 THEN viol \o Check(Rec[l]) ELSE viol
Spec == Init /\ [][Next]_vars
Accepted == LET d == TLCGet("stats").diameter IN
  IF d - 1 = Len(Rec) THEN TRUE ELSE PrintT(<<"REJECTED", ToJson([at |-> d])>>) /\ FALSE
Report == (l = Len(Rec) + 1) => PrintT(<<"VIOL", ToJson(viol)>>)
=============================================================================
