SPECIFICATION Spec
CONSTANTS
  Sizes = {1, 2, 3, 4, 8, 9, 12, 16}
  Endians = {FALSE, TRUE}
  USIZE = 64
  Guarded = TRUE
  Emit = TRUE
  MaxWidth = 64
  FullBg = FALSE
  Drop = "none"
INVARIANTS Conforms RefConsistent DefectRegion Precond Emitted
CHECK_DEADLOCK FALSE
