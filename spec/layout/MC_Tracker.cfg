SPECIFICATION Spec
CONSTANTS
  MaxLen = 3
  MaxAttrs = 1
  PadFix = TRUE
INVARIANTS L3
CHECK_DEADLOCK FALSE
