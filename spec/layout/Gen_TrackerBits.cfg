SPECIFICATION Spec
CONSTANTS
    Variant = "code"
    TailFix = TRUE
    MaxLen = 3
    EmitDecls = TRUE
INVARIANTS Emitted
CHECK_DEADLOCK FALSE
