SPECIFICATION Spec
CONSTANTS
  Variant = "floorSize"
  Guarded = TRUE
  Emit = FALSE
INVARIANTS Valid Agree Covers Allocated RefSane
CHECK_DEADLOCK FALSE
