----------------------------- MODULE RustLayout -----------------------------
(***************************************************************************)
(* L1 reference: layout of Rust `#[repr(C)]` structs and unions with the   *)
(* modifiers `packed(N)` and `align(N)` (The Rust Reference, type-layout). *)
(* A field is [size, align].                                                *)
(* r: [kind: "struct"|"union", fields, packed: 0|N, align: 0|N]             *)
(***************************************************************************)
EXTENDS Naturals, Sequences, TLC

RMax(a, b) == IF a >= b THEN a ELSE b
RMin(a, b) == IF a <= b THEN a ELSE b
RRoundUp(x, a) == ((x + a - 1) \div a) * a

RFieldAlign(f, packed) == IF packed > 0 THEN RMin(f.align, packed) ELSE f.align

RECURSIVE ROffsetsFrom(_, _, _, _)
ROffsetsFrom(fs, i, off, packed) ==
  IF i > Len(fs) THEN <<>>
  ELSE LET o == RRoundUp(off, RFieldAlign(fs[i], packed))
       IN <<o>> \o ROffsetsFrom(fs, i + 1, o + fs[i].size, packed)

RAlign(r) ==
  LET RECURSIVE M(_)
      M(i) == IF i > Len(r.fields) THEN 1 ELSE RMax(RFieldAlign(r.fields[i], r.packed), M(i + 1))
  IN RMax(M(1), r.align)
ROffsets(r) == IF r.kind = "union" THEN [i \in 1..Len(r.fields) |-> 0]
               ELSE ROffsetsFrom(r.fields, 1, 0, r.packed)
RDataSize(r) ==
  IF Len(r.fields) = 0 THEN 0
  ELSE IF r.kind = "union" THEN
    LET RECURSIVE M(_) M(i) == IF i > Len(r.fields) THEN 0 ELSE RMax(r.fields[i].size, M(i + 1)) IN M(1)
  ELSE ROffsets(r)[Len(r.fields)] + r.fields[Len(r.fields)].size
RSize(r) == RRoundUp(RDataSize(r), RAlign(r))
RLayoutOf(r) == [size |-> RSize(r), align |-> RAlign(r), offsets |-> ROffsets(r)]
(* rustc rejects a type that is both packed and align(N) *)
RWellFormed(r) == ~(r.packed > 0 /\ r.align > 0)
=============================================================================
