SPECIFICATION Spec
CONSTANTS
  Sizes = {2}
  Endians = {FALSE}
  USIZE = 64
  Guarded = TRUE
  Emit = FALSE
  MaxWidth = 64
  FullBg = FALSE
  Drop = "getmask"
INVARIANTS Conforms RefConsistent DefectRegion Precond Emitted
CHECK_DEADLOCK FALSE
