--------------------------- MODULE LayoutAsserts ---------------------------
(***************************************************************************)
(* L1 of the embedded layout assertions: for every concrete composite with *)
(* a known layout (not a template definition, not a forward declaration)   *)
(* the bindings assert its size, its alignment and the offset of every     *)
(* named non-bit-field member (none for opaque types); the numbers are the *)
(* C compiler's.  An assertion is <<what, type, member, value>>.           *)
(* c is a `comp` event of the real code, tparams the number of template    *)
(* parameters in scope of the type (from the IR dump).                     *)
(***************************************************************************)
EXTENDS Naturals, Sequences, FiniteSets, TLC

Expected(c, tparams, layout_tests) ==
  IF ~layout_tests \/ c.fwd \/ c.size < 0 \/ tparams > 0 THEN {}
  ELSE {<<"size", c.name, "", c.size>>, <<"align", c.name, "", c.align>>}
       \cup (IF c.is_opaque THEN {}
             ELSE {<<"offset", c.name, c.fields[j].name, c.fields[j].off_bits \div 8>> :
                     j \in {j \in DOMAIN c.fields : c.fields[j].kind = "dm" /\ c.fields[j].name # ""
                                                      /\ c.fields[j].off_bits >= 0}})
=============================================================================
