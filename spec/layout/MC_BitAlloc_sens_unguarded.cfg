SPECIFICATION Spec
CONSTANTS
  Variant = "code"
  Guarded = FALSE
  Emit = FALSE
INVARIANTS Valid Agree Covers Allocated RefSane
CHECK_DEADLOCK FALSE
