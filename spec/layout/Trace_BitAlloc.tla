---------------------------- MODULE Trace_BitAlloc ----------------------------
(***************************************************************************)
(* Trace validation (impl -> spec) of bit-field allocation.                *)
(*                                                                         *)
(* One NDJSON line (file $TRACE) per generated record type, observed on    *)
(* the real tool chain:                                                    *)
(*   kind, attr, fields      the declaration that was rendered             *)
(*   c_offs, c_widths, c_size  what clang does: per named field the first  *)
(*                           bit and the number of bits that a C store of  *)
(*                           all-ones sets in a zeroed object (-1: not     *)
(*                           observable, i.e. unnamed)                     *)
(*   r_units [nth, off, size]  byte offset / size of `_bitfield_<nth>` in  *)
(*                           the compiled bindings                         *)
(*   r_bfs   [i, unit, off, w] the constants of the generated getter of    *)
(*                           field i: get_const::<off, w> on unit `unit`   *)
(* One state per consumed line.  For every line                            *)
(*   MODEL : CLayoutBits disagrees with clang (a defect of the spec)       *)
(*   VIOL  : property predicate - 8 * unit offset + offset_into_unit is    *)
(*           the C bit offset, width is the declared width, the unit's     *)
(*           storage covers the field                                      *)
(*   DRIFT : shape - units / constants differ from the BitAlloc machine    *)
(***************************************************************************)
EXTENDS BitAlloc, TLC, Json, IOUtils

Rec == ndJsonDeserialize(IOEnv.TRACE)

VARIABLES l, viol, drift, model, nbf
vars == <<l, viol, drift, model, nbf>>

Init == l = 1 /\ viol = <<>> /\ drift = <<>> /\ model = <<>> /\ nbf = 0

Cap(s, x) == IF Len(s) < 400 THEN Append(s, x) ELSE s
Range(s) == {s[i] : i \in DOMAIN s}

Ev == Rec[l]
D == [kind |-> Ev.kind, attr |-> Ev.attr, fields |-> Ev.fields]
CL == CLayout(D)
Pred == Alloc(D, CL.offs, IsPacked(D))

ExpWidth(f) == IF IsBF(f) THEN f.bw ELSE 8 * Ty[f.ty].size

ModelErrs ==
  {[id |-> Ev.id, what |-> "offset", i |-> i, spec |-> CL.offs[i], clang |-> Ev.c_offs[i]] :
     i \in {j \in DOMAIN Ev.fields : Ev.c_offs[j] >= 0 /\ Ev.c_offs[j] # CL.offs[j]}}
  \cup {[id |-> Ev.id, what |-> "width", i |-> i, spec |-> ExpWidth(Ev.fields[i]), clang |-> Ev.c_widths[i]] :
     i \in {j \in DOMAIN Ev.fields : Ev.c_offs[j] >= 0 /\ Ev.c_widths[j] # ExpWidth(Ev.fields[j])}}
  \cup (IF CL.size # Ev.c_size
        THEN {[id |-> Ev.id, what |-> "size", i |-> 0, spec |-> CL.size, clang |-> Ev.c_size]} ELSE {})

UnitOf(nth) == CHOOSE u \in Range(Ev.r_units) : u.nth = nth
HasUnit(nth) == \E u \in Range(Ev.r_units) : u.nth = nth

(* the machine's own answer for raw field i: <<unit start byte, offset_into_unit>>, <<-1, -1>> if dropped *)
PredOf(i) ==
  LET hits == {<<u, k>> \in (DOMAIN Pred) \X (1..Len(Ev.fields)) : k \in DOMAIN Pred[u].bfs /\ Pred[u].bfs[k].i = i}
  IN IF hits = {} THEN <<-1, -1>>
     ELSE LET h == CHOOSE x \in hits : TRUE IN <<Pred[h[1]].start \div 8, Pred[h[1]].bfs[h[2]].off>>

(* property predicates on what the generated code really uses               *)
Viols ==
  UNION {
    LET b == Ev.r_bfs[k]
        f == Ev.fields[b.i]
        base == [id |-> Ev.id, i |-> b.i, ty |-> f.ty, kind |-> Ev.kind, attr |-> Ev.attr,
                 regionA |-> RegionUnionRun(D), regionB |-> RegionPragmaUnseen(D),
                 unit |-> b.unit, off |-> b.off, w |-> b.w,
                 pstart |-> PredOf(b.i)[1], poff |-> PredOf(b.i)[2], coff |-> Ev.c_offs[b.i]]
    IN IF ~HasUnit(b.unit) THEN {base @@ [what |-> "no-unit", want |-> 0, got |-> 0, ustart |-> -1]}
       ELSE LET u == UnitOf(b.unit) IN
         (IF 8 * u.off + b.off # Ev.c_offs[b.i]
          THEN {base @@ [what |-> "offset", want |-> Ev.c_offs[b.i], got |-> 8 * u.off + b.off, ustart |-> u.off]} ELSE {})
         \cup (IF b.w # f.bw THEN {base @@ [what |-> "width", want |-> f.bw, got |-> b.w, ustart |-> u.off]} ELSE {})
         \cup (IF b.off + b.w > 8 * u.size
               THEN {base @@ [what |-> "cover", want |-> b.off + b.w, got |-> 8 * u.size, ustart |-> u.off]} ELSE {})
    : k \in DOMAIN Ev.r_bfs}

(* shape: the machine's units and constants                                  *)
PredUnits == {[nth |-> Pred[u].nth, size |-> Pred[u].size] : u \in DOMAIN Pred}
ObsUnits == {[nth |-> u.nth, size |-> u.size] : u \in Range(Ev.r_units)}
PredBfs == UNION {{[i |-> Pred[u].bfs[k].i, unit |-> Pred[u].nth, off |-> Pred[u].bfs[k].off, w |-> Pred[u].bfs[k].w] :
                     k \in {kk \in DOMAIN Pred[u].bfs : Pred[u].bfs[kk].named}} : u \in DOMAIN Pred}
ObsBfs == {[i |-> b.i, unit |-> b.unit, off |-> b.off, w |-> b.w] : b \in Range(Ev.r_bfs)}
(* the byte at which the machine believes the unit starts vs where the compiled struct has it *)
PredStarts == {[nth |-> Pred[u].nth, off |-> Pred[u].start \div 8] : u \in DOMAIN Pred}
ObsStarts == {[nth |-> u.nth, off |-> u.off] : u \in Range(Ev.r_units)}
Drifts ==
  (IF PredUnits # ObsUnits THEN {[id |-> Ev.id, what |-> "units", pred |-> PredUnits, obs |-> ObsUnits]} ELSE {})
  \cup (IF PredBfs # ObsBfs THEN {[id |-> Ev.id, what |-> "constants", pred |-> PredBfs \ ObsBfs, obs |-> ObsBfs \ PredBfs]} ELSE {})
  \cup (IF PredStarts # ObsStarts THEN {[id |-> Ev.id, what |-> "unit-start", pred |-> PredStarts, obs |-> ObsStarts]} ELSE {})

RECURSIVE AddAll(_, _)
AddAll(s, S) == IF S = {} THEN s ELSE LET x == CHOOSE y \in S : TRUE IN AddAll(Cap(s, x), S \ {x})

Step == /\ l <= Len(Rec)
        /\ viol' = AddAll(viol, Viols)
        /\ drift' = AddAll(drift, Drifts)
        /\ model' = AddAll(model, ModelErrs)
        /\ nbf' = nbf + Len(Ev.r_bfs)
        /\ l' = l + 1
Next == Step
Spec == Init /\ [][Next]_vars

Accepted ==
  LET d == TLCGet("stats").diameter IN
  IF d - 1 = Len(Rec) THEN TRUE
  ELSE /\ PrintT(<<"REJECTED", ToJson([at |-> d, line |-> Rec[d]])>>)
       /\ FALSE

Done == l = Len(Rec) + 1
Report == Done => /\ PrintT(<<"VIOL", ToJson(viol)>>)
                  /\ PrintT(<<"DRIFT", ToJson(drift)>>)
                  /\ PrintT(<<"MODEL", ToJson(model)>>)
                  /\ PrintT(<<"COUNTS", ToJson([records |-> Len(Rec), bitfields |-> nbf])>>)
=============================================================================
