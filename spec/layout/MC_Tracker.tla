----------------------------- MODULE MC_Tracker -----------------------------
(* L3: over every declaration of the Gen_Layout universe, what the tracker and  *)
(* CompInfo::codegen emit (Tracker.tla) is laid out by rustc (RustLayout.tla)    *)
(* exactly as clang lays out the C record (CLayout.tla): size, alignment and     *)
(* every member offset - with and without explicit padding, as Rust union or     *)
(* bindgen-wrapper union.  Classes recorded as known findings are excluded by     *)
(* name (KnownClass) so that everything else is still verified; the config with   *)
(* PadFix = FALSE (the code before the repair of the padding alignment) must      *)
(* fail.                                                                           *)
EXTENDS Gen_Layout, Tracker
CONSTANT PadFix

HasOverAligned == \E j \in DOMAIN Decl.fields : Decl.fields[j].align > MaxGuaranteedAlign
(* #pragma pack / packed union with a member aligned to 16 (long double): known findings of C02 *)
(* packed / #pragma pack record that also carries aligned(N), on the type or on a member (two attributes:        *)
(* thorough tier): repr(packed) and repr(align) together (E0587), or the pack is lost and members move -          *)
(* recorded finding C02 packed-with-aligned                                                                       *)
PackedAlignedMember == (packed \/ pack > 0) /\ (malign > 0 \/ aligned > 0)
KnownClass == (HasOverAligned /\ (pack > 0 \/ (kind = "union" /\ packed))) \/ PackedAlignedMember

L3 == \A force \in BOOLEAN, ru \in (IF kind = "union" THEN BOOLEAN ELSE {FALSE}) :
        Agrees(Decl, EmitRec(Decl, force, ru, PadFix)) \/ KnownClass
(* the known classes really are violations of the model (they are not excluded for convenience) *)
KnownClassAgrees == KnownClass => Agrees(Decl, EmitRec(Decl, FALSE, TRUE, PadFix))
=============================================================================
