SPECIFICATION Spec
CONSTANTS
  Sizes = {2}
  Endians = {TRUE}
  USIZE = 64
  Guarded = TRUE
  Emit = FALSE
  MaxWidth = 64
  FullBg = FALSE
  Drop = "rev"
INVARIANTS Conforms RefConsistent DefectRegion Precond Emitted
CHECK_DEADLOCK FALSE
