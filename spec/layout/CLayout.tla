------------------------------ MODULE CLayout ------------------------------
(***************************************************************************)
(* L1 reference: record layout of C structs and unions (System V / Itanium *)
(* rules as implemented by clang for x86_64 and the other ELF targets):     *)
(* natural alignment, __attribute__((packed)), aligned(N) on the type or   *)
(* on a member, #pragma pack(P), zero-length / flexible arrays.             *)
(* A field is [size, align, maligned]: natural size and alignment of its    *)
(* type and the value of a member-level aligned(N) (0 = none).              *)
(* Bit-fields are specified in BitAlloc.tla.                                *)
(***************************************************************************)
EXTENDS Naturals, Sequences, FiniteSets, TLC

Max(a, b) == IF a >= b THEN a ELSE b
Min(a, b) == IF a <= b THEN a ELSE b
RoundUp(x, a) == IF a = 0 THEN x ELSE ((x + a - 1) \div a) * a

(* effective alignment of a member inside a record with the given attributes *)
(* (clang: the packed attribute lowers the natural alignment to 1, a member-level aligned(M) raises it to at  *)
(* least M, and #pragma pack(P) caps the result - also an explicit aligned(M) - at P)                          *)
FieldAlign(f, packed, pack) ==
  LET nat == IF packed THEN 1 ELSE f.align
      raised == IF f.maligned > 0 THEN Max(nat, f.maligned) ELSE nat
  IN IF pack > 0 THEN Min(raised, pack) ELSE raised

RECURSIVE StructOffsets(_, _, _, _, _)
StructOffsets(fs, i, off, packed, pack) ==
  IF i > Len(fs) THEN <<>>
  ELSE LET a == FieldAlign(fs[i], packed, pack)
           o == RoundUp(off, a)
       IN <<o>> \o StructOffsets(fs, i + 1, o + fs[i].size, packed, pack)

MaxAlign(fs, packed, pack) ==
  LET RECURSIVE M(_)
      M(i) == IF i > Len(fs) THEN 1 ELSE Max(FieldAlign(fs[i], packed, pack), M(i + 1))
  IN M(1)

(* decl: [kind: "struct"|"union", fields, packed: BOOLEAN, pack: 0|1|2|4|8, aligned: 0|N, cxx: BOOLEAN] *)
CAlign(d) == Max(MaxAlign(d.fields, d.packed, d.pack), d.aligned)
COffsets(d) ==
  IF d.kind = "union" THEN [i \in 1..Len(d.fields) |-> 0]
  ELSE StructOffsets(d.fields, 1, 0, d.packed, d.pack)
CDataSize(d) ==
  IF Len(d.fields) = 0 THEN 0
  ELSE IF d.kind = "union" THEN
    LET RECURSIVE M(_) M(i) == IF i > Len(d.fields) THEN 0 ELSE Max(d.fields[i].size, M(i + 1)) IN M(1)
  ELSE COffsets(d)[Len(d.fields)] + d.fields[Len(d.fields)].size
CSize(d) ==
  LET s == RoundUp(CDataSize(d), CAlign(d)) IN
  IF s = 0 /\ d.cxx THEN 1 ELSE s
CLayoutOf(d) == [size |-> CSize(d), align |-> CAlign(d), offsets |-> COffsets(d)]
=============================================================================
