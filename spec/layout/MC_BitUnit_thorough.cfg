SPECIFICATION Spec
CONSTANTS
  Sizes = {1, 2, 3, 4, 5, 6, 7, 8, 9, 10, 11, 12, 13, 14, 15, 16}
  Endians = {FALSE, TRUE}
  USIZE = 64
  Guarded = TRUE
  Emit = FALSE
  MaxWidth = 64
  FullBg = TRUE
  Drop = "none"
INVARIANTS Conforms RefConsistent DefectRegion Precond Emitted
CHECK_DEADLOCK FALSE
