SPECIFICATION Spec
CONSTANTS
    PadFix = TRUE
    SawBaseCountsGap = FALSE
    MaxBases = 2
    MaxFields = 2
    EmitClasses = FALSE
INVARIANTS L3
CHECK_DEADLOCK FALSE
