--------------------------- MODULE MC_TrackerBits ---------------------------
(* L3 for structs with bit-fields: over every declaration of up to MaxLen raw fields from the    *)
(* alphabet below (ordinary members of four sizes, bit-fields of narrow and wide types, a        *)
(* zero-width separator), plain and __attribute__((packed)), with and without explicit padding,   *)
(* what TrackerBits emits is laid out by rustc exactly like the C record.                          *)
(*   MC_TrackerBits.cfg              TailFix = TRUE   must hold                                    *)
(*   MC_TrackerBits_x_noTailFix.cfg  TailFix = FALSE  must fail (the repaired double padding)      *)
(* Emit: print every declaration with the predicted Rust fields, for replay (check C02).           *)
EXTENDS TrackerBits, TLC, Json

CONSTANTS MaxLen, EmitDecls

F(ty, bw, named) == [ty |-> ty, bw |-> bw, named |-> named]
Alphabet == {F("char", -1, TRUE), F("short", -1, TRUE), F("int", -1, TRUE), F("llong", -1, TRUE),
             F("uint", 3, TRUE), F("uint", 9, TRUE), F("ushort", 5, TRUE), F("uchar", 8, TRUE),
             F("bool", 1, TRUE), F("ullong", 40, TRUE), F("ullong", 64, TRUE), F("int", 0, FALSE)}
McAttrs == {"none", "packed"}

VARIABLES attr, fields
vars == <<attr, fields>>
Init == attr \in McAttrs /\ fields = <<>>
Next == \E t \in Alphabet : Len(fields) < MaxLen /\ fields' = Append(fields, t) /\ UNCHANGED attr
Spec == Init /\ [][Next]_vars

D == [kind |-> "struct", attr |-> attr, fields |-> fields]
IsDecl == Len(fields) >= 1 /\ ValidDecl(D)
HasBF == \E i \in DOMAIN fields : IsBF(fields[i]) /\ fields[i].named
C == CLayout(D)
Units == Alloc(D, C.offs, IsPacked(D))
R(force) == Emit(D, C, Units, force)

(* recorded finding C02 packed-zero-width-separator: in a packed struct the gap a `:0` separator opens  *)
(* is not representable (saw_field_with_layout emits no padding when packed)                          *)
PackedSeparator == attr = "packed" /\ \E i \in DOMAIN fields : fields[i].bw = 0
Known == UnitGap(D, C, Units) \/ PackedSeparator

L3Size == IsDecl /\ HasBF /\ ~Known => \A force \in BOOLEAN : SizeAgrees(C, R(force))
L3Members == IsDecl /\ HasBF /\ ~Known => \A force \in BOOLEAN : MembersAgree(D, C, R(force))
L3Units == IsDecl /\ HasBF /\ ~Known => \A force \in BOOLEAN : UnitsAgree(Units, R(force))
(* the recorded finding is real in the model too: some declaration with a gap misplaces its unit *)
GapNeverMisplaces == IsDecl /\ HasBF /\ UnitGap(D, C, Units) => UnitsAgree(Units, R(FALSE))

Emitted == IsDecl /\ HasBF /\ EmitDecls =>
  PrintT(<<"BFDECL", ToJson([attr |-> attr, fields |-> fields, c |-> C, gap |-> UnitGap(D, C, Units),
                             plain |-> R(FALSE), explicit |-> R(TRUE)])>>)
=============================================================================
