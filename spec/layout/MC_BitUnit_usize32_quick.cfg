SPECIFICATION Spec
CONSTANTS
  Sizes = {1, 2, 4, 5}
  Endians = {FALSE, TRUE}
  USIZE = 32
  Guarded = TRUE
  Emit = FALSE
  MaxWidth = 32
  FullBg = FALSE
  Drop = "none"
INVARIANTS Conforms RefConsistent DefectRegion Precond Emitted
CHECK_DEADLOCK FALSE
