SPECIFICATION Spec
CONSTANTS
    Variant = "code"
    TailFix = TRUE
    MaxLen = 5
    EmitDecls = FALSE
INVARIANTS L3Size L3Members L3Units
CHECK_DEADLOCK FALSE
