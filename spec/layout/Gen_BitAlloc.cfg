SPECIFICATION Spec
CONSTANTS
  Variant = "code"
  Guarded = TRUE
  Emit = TRUE
INVARIANTS Valid Agree Covers Allocated RefSane Emitted
CHECK_DEADLOCK FALSE
