SPECIFICATION Spec
CONSTANTS
  Variant = "moduloSize"
  Guarded = TRUE
  Emit = FALSE
INVARIANTS Valid Agree Covers Allocated RefSane
CHECK_DEADLOCK FALSE
