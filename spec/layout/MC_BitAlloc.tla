----------------------------- MODULE MC_BitAlloc -----------------------------
(***************************************************************************)
(* Bounded model of C03 part (b) and behaviour generator of the replay R2. *)
(*                                                                         *)
(* A family (JSON file named by $FAMILY) gives an alphabet of raw fields   *)
(* (type, width or -1 for an ordinary member, named?), a maximal length,   *)
(* record kinds and attributes.  A behaviour appends one raw field per     *)
(* step; every state is a complete declaration D on which                  *)
(*    CLayout(D)                     (L1: where C puts the fields)         *)
(*    Alloc(D, CLayout(D).offs, ..)  (L2: bindgen's allocation units)      *)
(* are compared.  With Emit every declaration that has a named bit-field   *)
(* is printed with both, for replay through the real bindgen + clang.      *)
(***************************************************************************)
EXTENDS BitAlloc, TLC, Json, IOUtils

CONSTANTS Guarded, Emit

Fam == JsonDeserialize(IOEnv.FAMILY)
Alphabet == {Fam.alphabet[i] : i \in DOMAIN Fam.alphabet}
Kinds == {Fam.kinds[i] : i \in DOMAIN Fam.kinds}
FamAttrs == {Fam.attrs[i] : i \in DOMAIN Fam.attrs}

VARIABLES kind, attr, fields
vars == <<kind, attr, fields>>

Init == kind \in Kinds /\ attr \in FamAttrs /\ fields = <<>>
Append1(t) == /\ Len(fields) < Fam.maxlen
              /\ fields' = Append(fields, [ty |-> t.ty, bw |-> t.bw, named |-> t.named])
              /\ UNCHANGED <<kind, attr>>
Next == \E t \in Alphabet : Append1(t)
Spec == Init /\ [][Next]_vars

D == [kind |-> kind, attr |-> attr, fields |-> fields]
IsDecl == Len(fields) >= 1
HasNamedBF == \E i \in DOMAIN fields : IsBF(fields[i]) /\ fields[i].named
C == CLayout(D)
Units == Alloc(D, C.offs, IsPacked(D))

Valid == IsDecl => ValidDecl(D)
Agree == IsDecl /\ (Guarded => ~RegionPragmaUnseen(D)) => OffsetsAgree(D, C.offs, Units)
(* a re-aligned field (defect B) is also not counted when the unit is sized by a later field *)
Covers == IsDecl /\ (Guarded => ~RegionUnionRun(D) /\ ~RegionPragmaUnseen(D)) => UnitCovers(Units)
(* a union whose last bit-field is `:0` loses the whole unit: part of the union defect shape *)
Allocated == IsDecl /\ (Guarded => ~RegionUnionRun(D)) => AllAllocated(D, Units)
(* layout sanity of the reference itself: named bit-fields do not overlap in a struct, and
   everything lies inside the object                                                      *)
RefSane ==
  IsDecl =>
    /\ \A i \in DOMAIN fields :
         C.offs[i] + (IF IsBF(fields[i]) THEN fields[i].bw ELSE 8 * Ty[fields[i].ty].size) <= 8 * C.size
    /\ kind = "struct" =>
         \A i, j \in DOMAIN fields :
           i < j => C.offs[i] + (IF IsBF(fields[i]) THEN fields[i].bw ELSE 8 * Ty[fields[i].ty].size) <= C.offs[j]

Emitted ==
  IsDecl /\ HasNamedBF /\ Emit =>
    PrintT(<<"DECL", ToJson([kind |-> kind, attr |-> attr, fields |-> fields,
                             c |-> C, packed |-> IsPacked(D), units |-> Units,
                             agree |-> OffsetsAgree(D, C.offs, Units), covers |-> UnitCovers(Units),
                             regionA |-> RegionUnionRun(D), regionB |-> RegionPragmaUnseen(D)])>>)
=============================================================================
