--------------------------- MODULE MC_TrackerCxx ---------------------------
(* L3 for C++ classes over every class with an optional own vtable pointer, up to MaxBases bases from   *)
(* the alphabet below (POD and non-POD, with and without tail padding) and up to MaxFields members.      *)
(*   MC_TrackerCxx.cfg               must hold                                                            *)
(*   MC_TrackerCxx_x_noGap.cfg       saw_base forgets the alignment gap: must fail                        *)
(*   MC_TrackerCxx_x_reuseIsReal.cfg the recorded finding is real in the model: must fail                 *)
(*   Gen_TrackerCxx.cfg              prints every class with the predicted Rust fields (replay, check C02) *)
EXTENDS TrackerCxx, Json

CONSTANTS MaxBases, MaxFields, EmitClasses

B(sz, al, ds, pod, nm) == [size |-> sz, align |-> al, dsize |-> ds, pod |-> pod, name |-> nm]
BaseAlphabet == {B(4, 4, 4, TRUE, "PI"), B(8, 8, 8, TRUE, "PD"), B(16, 8, 12, TRUE, "PDI"), B(1, 1, 1, TRUE, "PC"),
                 B(2, 2, 2, TRUE, "PS"), B(16, 8, 12, FALSE, "NDI"), B(24, 8, 17, FALSE, "NDDC"), B(8, 4, 5, FALSE, "NIC")}
F(sz, al, nm) == [size |-> sz, align |-> al, maligned |-> 0, name |-> nm]
FieldAlphabet == {F(1, 1, "c"), F(2, 2, "s"), F(4, 4, "i"), F(8, 8, "d")}

VARIABLES vptr, bases, fields
vars == <<vptr, bases, fields>>
Init == /\ vptr \in BOOLEAN
        /\ bases \in UNION {[1..n -> BaseAlphabet] : n \in 0..MaxBases}
        /\ fields \in UNION {[1..n -> FieldAlphabet] : n \in 0..MaxFields}
        /\ (vptr \/ Len(bases) > 0)
        (* a class never names one direct base twice *)
        /\ \A i, j \in DOMAIN bases : i # j => bases[i].name # bases[j].name
Next == UNCHANGED vars
Spec == Init /\ [][Next]_vars

Cls == [vptr |-> vptr, bases |-> bases, fields |-> fields]
R(force) == EmitClass(Cls, force)
L3 == ~TailReuse(Cls) => \A force \in BOOLEAN : ClassAgrees(Cls, R(force))
ReuseNeverHurts == TailReuse(Cls) => ClassAgrees(Cls, R(FALSE))

Strip(r) == [kind |-> r.kind, packed |-> r.packed, align |-> r.align,
             fields |-> [k \in DOMAIN r.fields |-> [size |-> r.fields[k].size, align |-> r.fields[k].align]]]
Emitted == EmitClasses =>
  PrintT(<<"CXXCLS", ToJson([vptr |-> vptr, bases |-> [k \in DOMAIN bases |-> bases[k].name],
                             fields |-> [k \in DOMAIN fields |-> fields[k].name],
                             c |-> CxxLayout(Cls), reuse |-> TailReuse(Cls),
                             plain |-> Strip(R(FALSE)), explicit |-> Strip(R(TRUE))])>>)
=============================================================================
