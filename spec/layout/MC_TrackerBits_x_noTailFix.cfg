SPECIFICATION Spec
CONSTANTS
    Variant = "code"
    TailFix = FALSE
    MaxLen = 4
    EmitDecls = FALSE
INVARIANTS L3Size L3Members L3Units
CHECK_DEADLOCK FALSE
