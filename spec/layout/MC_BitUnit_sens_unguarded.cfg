SPECIFICATION Spec
CONSTANTS
  Sizes = {9}
  Endians = {FALSE}
  USIZE = 64
  Guarded = FALSE
  Emit = FALSE
  MaxWidth = 64
  FullBg = FALSE
  Drop = "none"
INVARIANTS Conforms RefConsistent DefectRegion Precond Emitted
CHECK_DEADLOCK FALSE
