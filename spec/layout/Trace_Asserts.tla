---------------------------- MODULE Trace_Asserts ----------------------------
(* Trace validation of layout assertions. Per run: `reset`, `opts`            *)
(* (layout_tests flag), `comp` events of the real code (C numbers), and one   *)
(* `asserts` event = the assertion items parsed out of the emitted bindings   *)
(* (const blocks or #[test] functions).  Observed set = expected set.         *)
EXTENDS LayoutAsserts, Json, IOUtils

Rec == ndJsonDeserialize(IOEnv.TRACE)
VARIABLES l, case, exp, lt, viol, ncomp, nassert
vars == <<l, case, exp, lt, viol, ncomp, nassert>>
Init == l = 1 /\ case = "" /\ exp = {} /\ lt = TRUE /\ viol = <<>> /\ ncomp = 0 /\ nassert = 0
Ev == Rec[l]
Range(s) == {s[i] : i \in DOMAIN s}
Pick(S) == CHOOSE x \in S : TRUE

Next ==
  /\ l <= Len(Rec) /\ l' = l + 1
  /\ IF Ev.ev = "reset" THEN case' = Ev.case /\ exp' = {} /\ lt' = TRUE /\ UNCHANGED <<viol, ncomp, nassert>>
     ELSE IF Ev.ev = "opts" THEN lt' = Ev.layout_tests /\ UNCHANGED <<case, exp, viol, ncomp, nassert>>
     ELSE IF Ev.ev = "comp" THEN
       /\ exp' = exp \cup Expected(Ev, Ev.tparams, lt)
       /\ ncomp' = ncomp + 1 /\ UNCHANGED <<case, lt, viol, nassert>>
     ELSE IF Ev.ev = "asserts" THEN
       LET got == {<<a[1], a[2], a[3], a[4]>> : a \in Range(Ev.items)}
           missing == exp \ got
           extra == {g \in got \ exp : g[1] # "inst"}   \* instantiation assertions are judged by the replay
           m1 == IF missing = {} THEN <<"", "", "", 0>> ELSE Pick(missing)
           stated == \E g \in got : g[1] = m1[1] /\ g[2] = m1[2] /\ g[3] = m1[3]
           v == IF missing # {} THEN
                  <<[kind |-> IF stated THEN "assertion-states-wrong-number" ELSE "assertion-missing",
                     case |-> case, item |-> m1]>>
                ELSE IF extra # {} THEN <<[kind |-> "assertion-unexpected", case |-> case, item |-> Pick(extra)]>>
                ELSE <<>>
       IN /\ viol' = IF Len(viol) < 100 THEN viol \o v ELSE viol
          /\ nassert' = nassert + Cardinality(got)
          /\ UNCHANGED <<case, exp, lt, ncomp>>
     ELSE UNCHANGED <<case, exp, lt, viol, ncomp, nassert>>
Spec == Init /\ [][Next]_vars
Accepted == LET d == TLCGet("stats").diameter IN
  IF d - 1 = Len(Rec) THEN TRUE ELSE PrintT(<<"REJECTED", ToJson([at |-> d])>>) /\ FALSE
Report == (l = Len(Rec) + 1) => /\ PrintT(<<"VIOL", ToJson(viol)>>)
                                /\ PrintT(<<"COUNTS", ToJson([comps |-> ncomp, asserts |-> nassert])>>)
=============================================================================
