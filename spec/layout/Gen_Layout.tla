----------------------------- MODULE Gen_Layout -----------------------------
(***************************************************************************)
(* Behaviour generator for record layout (spec -> impl): every struct /    *)
(* union of up to MaxLen members over a layout alphabet, with at most      *)
(* MaxAttrs of the attributes {packed, #pragma pack(P), aligned(N) on the  *)
(* type, aligned(N) on one member}.  Each declaration is printed with the  *)
(* layout CLayout.tla predicts; the driver renders it, asks clang (the      *)
(* environment; a disagreement with the prediction is a model error) and    *)
(* compares what rustc computes for the bindings the real bindgen emits.    *)
(***************************************************************************)
EXTENDS CLayout, Json

CONSTANTS MaxLen, MaxAttrs

(* type code -> natural (size, align) on x86_64-unknown-linux-gnu *)
Ty == [c |-> [size |-> 1, align |-> 1], s |-> [size |-> 2, align |-> 2], i |-> [size |-> 4, align |-> 4],
       d |-> [size |-> 8, align |-> 8], p |-> [size |-> 8, align |-> 8], l |-> [size |-> 16, align |-> 16],
       a |-> [size |-> 3, align |-> 1], n |-> [size |-> 8, align |-> 4], e |-> [size |-> 4, align |-> 4],
       z |-> [size |-> 0, align |-> 4], w |-> [size |-> 24, align |-> 8],
       f |-> [size |-> 8, align |-> 8],
       v |-> [size |-> 16, align |-> 16]]       \* float vector_size(16): 16-aligned in C, an array of f32 in Rust         \* int_fast16_t: as wide as the C library says (glibc x86_64: long)
Codes == DOMAIN Ty
Plain == Codes \ {"z"}

FieldSeqs == UNION {[1..k -> Plain] : k \in 1..MaxLen}
             \cup UNION {{Append(s, "z") : s \in [1..k -> Plain]} : k \in 1..(MaxLen - 1)}

VARIABLES kind, codes, packed, pack, aligned, mfield, malign
vars == <<kind, codes, packed, pack, aligned, mfield, malign>>

NAttrs == (IF packed THEN 1 ELSE 0) + (IF pack > 0 THEN 1 ELSE 0) + (IF aligned > 0 THEN 1 ELSE 0)
          + (IF malign > 0 THEN 1 ELSE 0)

Init == /\ kind \in {"struct", "union"}
        /\ codes \in FieldSeqs
        /\ packed \in BOOLEAN
        /\ pack \in {0, 1, 2, 4}
        /\ aligned \in {0, 2, 8, 16, 32}
        /\ mfield \in 1..MaxLen
        /\ malign \in {0, 2, 8}
        /\ mfield <= Len(codes)
        /\ (malign = 0 => mfield = 1)
        /\ NAttrs <= MaxAttrs
        /\ (kind = "union" => codes[Len(codes)] # "z")
Next == UNCHANGED vars
Spec == Init /\ [][Next]_vars

Decl == [kind |-> kind,
         fields |-> [j \in 1..Len(codes) |->
                       [size |-> Ty[codes[j]].size, align |-> Ty[codes[j]].align,
                        maligned |-> IF j = mfield THEN malign ELSE 0]],
         packed |-> packed, pack |-> pack, aligned |-> aligned, cxx |-> FALSE]

Emit == PrintT(<<"DECL", ToJson([kind |-> kind, codes |-> codes, packed |-> packed, pack |-> pack,
                                 aligned |-> aligned, mfield |-> mfield, malign |-> malign,
                                 layout |-> CLayoutOf(Decl)])>>)

(* L1 sanity of the reference itself *)
OffsetsAligned == \A j \in 1..Len(codes) :
  COffsets(Decl)[j] % FieldAlign(Decl.fields[j], packed, pack) = 0
SizeMultipleOfAlign == CSize(Decl) % CAlign(Decl) = 0
NoOverlap == kind = "struct" => \A j \in 1..(Len(codes) - 1) :
  COffsets(Decl)[j] + Decl.fields[j].size <= COffsets(Decl)[j + 1]
=============================================================================
