SPECIFICATION Spec
CONSTANTS
  Sizes = {1, 2, 3, 4, 5, 8, 9, 16}
  Endians = {FALSE, TRUE}
  USIZE = 32
  Guarded = TRUE
  Emit = FALSE
  MaxWidth = 40
  FullBg = TRUE
  Drop = "none"
INVARIANTS Conforms RefConsistent DefectRegion Precond Emitted
CHECK_DEADLOCK FALSE
