----------------------------- MODULE TrackerBits -----------------------------
(***************************************************************************)
(* L2: StructLayoutTracker (codegen/struct_layout.rs) and the repr          *)
(* decisions of CompInfo::codegen for STRUCTS THAT CONTAIN BIT-FIELDS -      *)
(* the part Tracker.tla leaves out.  The members the code walks are the      *)
(* ordinary members and the allocation units BitAlloc.tla computes           *)
(* (layout of a unit: its byte size, alignment 1).  Transcribed:             *)
(*   align_to_latest_field (with the "merge with bit-field" branch),         *)
(*   saw_bitfield_unit, saw_field_with_layout, add_tail_padding,             *)
(*   pad_struct (with the last_field_was_bitfield branch),                   *)
(*   requires_explicit_align, the `_bindgen_align: [uN; 0]` member that      *)
(*   replaces repr(align(N)) for records with bit-fields and N <= 8,         *)
(*   is_packed / already_packed over the computed fields.                    *)
(* Input: what libclang reports (CLayoutBits.tla).  Output: the emitted      *)
(* Rust fields and repr, which RustLayout.tla lays out.                      *)
(* L3 (MC_TrackerBits): size, alignment, the offset of every ordinary        *)
(* member and the start of every unit agree with C.                          *)
(*                                                                           *)
(* TailFix = TRUE is the code after the repair beaa0320 (add_tail_padding    *)
(* advances the offset); FALSE is the code before it and must fail.          *)
(***************************************************************************)
EXTENDS BitAlloc, RustLayout

CONSTANT TailFix

MaxGuaranteedAlign == 8

(* Rust layout of helpers::blob(Layout(size, align)) (as in Tracker.tla) *)
BlobLayout(size, align0) ==
  LET align == Max(align0, 1) IN
  IF align <= 4 THEN [size |-> (size \div align) * align, align |-> align]
  ELSE [size |-> AlignTo(size, align), align |-> align]

ForSizeAlign(size) ==
  IF size % 8 = 0 THEN 8 ELSE IF size % 4 = 0 THEN 4 ELSE IF size % 2 = 0 THEN 2 ELSE 1

(* ---- the members CompInfo::codegen walks ---------------------------------------------------*)
(* [k |-> "field", i, size, align, coff (bytes)]  |  [k |-> "unit", nth, size, align = 1, coff] *)
UnitStartingAt(units, i) ==
  {u \in DOMAIN units : units[u].bfs[1].i = i}

Members(d, C, units) ==
  LET n == Len(d.fields)
      M[i \in 0..n] ==
        IF i = 0 THEN <<>>
        ELSE LET f == d.fields[i] IN
             IF ~IsBF(f)
             THEN Append(M[i - 1], [k |-> "field", i |-> i, size |-> Ty[f.ty].size, align |-> Ty[f.ty].align,
                                    coff |-> C.offs[i] \div 8])
             ELSE IF UnitStartingAt(units, i) # {}
             THEN LET u == CHOOSE u \in UnitStartingAt(units, i) : TRUE IN
                  Append(M[i - 1], [k |-> "unit", i |-> units[u].nth, size |-> units[u].size, align |-> 1,
                                    coff |-> units[u].start \div 8])
             ELSE M[i - 1]
  IN M[n]

(* CompInfo::is_packed over the computed fields (units have alignment 1) *)
IsPackedAfter(d, C, ms) == PackedAttr(d) \/ \E j \in DOMAIN ms : ms[j].align > C.align
AlreadyPacked(ms) ==
  LET RECURSIVE Ok(_, _)
      Ok(j, total) == IF j > Len(ms) THEN TRUE
                      ELSE IF ms[j].align # 0 /\ total % ms[j].align # 0 THEN FALSE
                      ELSE Ok(j + 1, total + ms[j].size)
  IN Ok(1, 0)

(* ---- tracker -------------------------------------------------------------------------------*)
T0 == [off |-> 0, last |-> [size |-> 0, align |-> 0, some |-> FALSE], lastbf |-> FALSE, maxalign |-> 0,
       out |-> <<>>]

PaddingBytes(off, align) == AlignTo(off, Max(align, 1)) - off

(* align_to_latest_field: <<new offset, will merge with the bit-field>> *)
AlignToLatest(t, new, packed) ==
  IF packed \/ ~t.last.some THEN <<t.off, FALSE>>
  ELSE LET align == Max(1, t.last.align) IN
       IF t.lastbf /\ new.align <= t.last.size % align /\ new.size <= t.last.size % align
       THEN <<t.off, TRUE>>
       ELSE <<t.off + PaddingBytes(t.off, t.last.align), FALSE>>

SawUnit(t, m, packed) ==
  LET a == AlignToLatest(t, m, packed)
      off == a[1] + m.size
  IN [off |-> off, last |-> [size |-> m.size, align |-> 1, some |-> TRUE], lastbf |-> TRUE,
      maxalign |-> Max(t.maxalign, 1),
      out |-> Append(t.out, [size |-> m.size, align |-> 1, member |-> m])]

SawField(t, m, force, packed, clay) ==
  LET a == AlignToLatest(t, m, packed)
      off1 == a[1]
      merge == a[2]
      pad == IF m.coff > off1 THEN m.coff - off1
             ELSE IF merge \/ m.align = 0 THEN 0
             ELSE IF ~packed THEN PaddingBytes(off1, m.align)
             ELSE PaddingBytes(off1, Min(m.align, clay.align))
      off2 == off1 + pad
      need == force \/ pad >= m.align \/ m.align > MaxGuaranteedAlign
      palign0 == IF force THEN 1 ELSE Min(m.align, MaxGuaranteedAlign)
      palign == IF pad % Max(palign0, 1) # 0 THEN 1 ELSE palign0
      haspad == ~packed /\ need /\ pad # 0
      padrec == [size |-> BlobLayout(pad, palign).size, align |-> BlobLayout(pad, palign).align, member |-> [k |-> "pad"]]
  IN [off |-> off2 + m.size, last |-> [size |-> m.size, align |-> m.align, some |-> TRUE], lastbf |-> FALSE,
      maxalign |-> Max(Max(t.maxalign, m.align), IF haspad THEN palign ELSE 0),
      out |-> (IF haspad THEN Append(t.out, padrec) ELSE t.out)
              \o <<[size |-> m.size, align |-> m.align, member |-> m]>>]

RECURSIVE Walk(_, _, _, _, _, _)
Walk(ms, j, t, force, packed, clay) ==
  IF j > Len(ms) THEN t
  ELSE Walk(ms, j + 1,
            IF ms[j].k = "unit" THEN SawUnit(t, ms[j], packed) ELSE SawField(t, ms[j], force, packed, clay),
            force, packed, clay)

(* the whole struct: emitted fields + repr *)
Emit(d, C, units, force) ==
  LET ms == Members(d, C, units)
      clay == [size |-> C.size, align |-> C.align]
      packed0 == IsPackedAfter(d, C, ms)
      t1 == Walk(ms, 1, T0, force, packed0, clay)
      (* add_tail_padding: only with explicit padding *)
      tail == force /\ t1.off < clay.size
      t2 == IF tail
            THEN [t1 EXCEPT !.out = Append(@, [size |-> clay.size - t1.off, align |-> 1, member |-> [k |-> "pad"]]),
                            !.off = IF TailFix THEN clay.size ELSE @]
            ELSE t1
      (* pad_struct *)
      padbytes == IF clay.size < t2.off THEN 0 ELSE clay.size - t2.off
      dopad == /\ clay.size # 0 /\ padbytes # 0
               /\ (padbytes >= clay.align \/ (t2.lastbf /\ padbytes >= t2.last.align))
      playout == IF packed0 THEN [size |-> padbytes, align |-> 1]
                 ELSE IF t2.lastbf \/ clay.align > MaxGuaranteedAlign
                      THEN [size |-> padbytes, align |-> ForSizeAlign(padbytes)]
                 ELSE [size |-> padbytes, align |-> clay.align]
      pblob == BlobLayout(playout.size, playout.align)
      t3 == IF dopad THEN [t2 EXCEPT !.out = Append(@, [size |-> pblob.size, align |-> pblob.align, member |-> [k |-> "pad"]]),
                                     !.maxalign = Max(@, playout.align)]
            ELSE t2
      reqalign == IF t3.maxalign >= 16 THEN TRUE ELSE IF t3.maxalign >= clay.align THEN FALSE ELSE TRUE
      packed1 == IF clay.size # 0 /\ reqalign /\ clay.align = 1 THEN TRUE ELSE packed0
      explicit == IF clay.size # 0 /\ reqalign /\ clay.align # 1 THEN clay.align ELSE 0
      usepacked == packed1 /\ ~(explicit # 0 /\ AlreadyPacked(ms))
      hasunits == \E j \in DOMAIN ms : ms[j].k = "unit"
      alignfield == explicit # 0 /\ hasunits /\ explicit <= 8
  IN [kind |-> "struct",
      fields |-> (IF alignfield THEN <<[size |-> 0, align |-> explicit, member |-> [k |-> "align"]]>> ELSE <<>>) \o t3.out,
      packed |-> IF usepacked THEN clay.align ELSE 0,
      align |-> IF explicit # 0 /\ ~alignfield THEN explicit ELSE 0]

(* ---- L3 -------------------------------------------------------------------------------------*)
ROff(r, kind, i) ==
  LET offs == ROffsets(r)
      k == CHOOSE k \in DOMAIN r.fields : r.fields[k].member.k = kind /\ r.fields[k].member.i = i
  IN offs[k]

SizeAgrees(C, r) == RWellFormed(r) /\ RSize(r) = C.size /\ RAlign(r) = C.align
MembersAgree(d, C, r) ==
  \A i \in DOMAIN d.fields : ~IsBF(d.fields[i]) => ROff(r, "field", i) = C.offs[i] \div 8
UnitsAgree(units, r) ==
  \A u \in DOMAIN units : ROff(r, "unit", units[u].nth) = units[u].start \div 8

(* the shape of the recorded finding C03 unit-misplaced-in-struct: C starts the storage of a run of   *)
(* bit-fields later than the end of the member in front of it (the first bit-field did not fit the    *)
(* rest of its storage unit, or a wider type aligned it up); the tracker emits no padding in front of *)
(* a unit                                                                                              *)
UnitGap(d, C, units) ==
  LET ms == Members(d, C, units) IN
  \E j \in 2..Len(ms) : ms[j].k = "unit" /\ ms[j].coff > ms[j - 1].coff + ms[j - 1].size
=============================================================================
