SPECIFICATION Spec
CONSTANTS
  Variant = "code"
  Guarded = TRUE
  Emit = FALSE
INVARIANTS Valid Agree Covers Allocated RefSane Emitted
CHECK_DEADLOCK FALSE
