------------------------------- MODULE BitUnit -------------------------------
(***************************************************************************)
(* L2: transcription of /repo/bindgen/codegen/bitfield_unit.rs, the text   *)
(* bindgen pastes into every bindings file that has bit-fields.            *)
(*                                                                         *)
(*   get / raw_get / set / raw_set              u64 arithmetic (W = 64)    *)
(*   get_const / raw_get_const / set_const / raw_set_const                 *)
(*        usize arithmetic when BIT_WIDTH + bit_shift <= usize::BITS,      *)
(*        otherwise the u64 arithmetic again                               *)
(*                                                                         *)
(* The raw_* forms differ from the safe forms only in how the bytes are    *)
(* addressed (pointer arithmetic instead of slice indexing), so each pair  *)
(* shares one operator.  Every shift whose amount can reach the word width *)
(* is modelled with Rust's two semantics: with overflow checks (debug      *)
(* builds) the evaluation panics - outcome field `ovf`; without them the   *)
(* amount is taken modulo the word width - outcome field `val`/`st`.       *)
(* Slice indexing out of range panics in both builds: outcome field `oob`. *)
(***************************************************************************)
EXTENDS BitVec

(* "none": the code as it is.  Sensitivity self-tests remove one mechanism:
   "getmask"   get does not mask the value to bit_width
   "fieldmask" set writes whole bytes (field_mask = !0)
   "rev"       get does not reverse the bits of the field on big-endian targets *)
CONSTANT Drop

Byte(st, i) == {b \in 0..7 : (8 * i + b) \in st}

(* x << k and x >> k without overflow checks: amount modulo W               *)
ShlW(x, k, W) == Shl(x, k % W, W)
ShrW(x, k, W) == Shr(x, k % W)

(* common prologue:  start_byte, bit_shift, bytes_needed                    *)
StartByte(off) == off \div 8
BitShift(off) == off % 8
BytesNeeded(off, w) == (w + BitShift(off) + 7) \div 8

(* debug_assert!s at the head of all eight entry points                     *)
Precondition(N, off, w) == w <= 64 /\ off \div 8 < N /\ (off + w + 7) \div 8 <= N

(* -------------------------------------------------------------------------*)
(* get: lines 94-136 (u64), 329-358 (usize branch of get_const)             *)
GetW(W, st, N, off, w, BE) ==
  LET start == StartByte(off)
      sh == BitShift(off)
      need == BytesNeeded(off, w)
      (* for i in 0..bytes_needed { val |= (storage[start_byte + i] as uW) << (i * 8) } *)
      Contrib(i) == LET b == Byte(st, start + i) IN ShlW(IF BE THEN Rev(b, 8) ELSE b, i * 8, W)
      acc == UNION {Contrib(i) : i \in 0..(need - 1)}
      v1 == Shr(acc, sh)                                    \* val >>= bit_shift
      v2 == IF w < W /\ Drop # "getmask" THEN v1 \cap Ones(w) ELSE v1   \* if bit_width < W { val &= (1 << bit_width) - 1 }
      v3 == IF BE /\ Drop # "rev" THEN ShrW(Rev(v2, W), W - w, W) ELSE v2   \* val.reverse_bits() >> (W - bit_width)
  IN [val |-> v3,
      ovf |-> \E i \in 0..(need - 1) : i * 8 >= W,
      oob |-> start + need > N]

(* set: lines 189-242 (u64), 412-447 (usize branch of set_const)            *)
SetW(W, st, N, off, w, v, BE) ==
  LET start == StartByte(off)
      sh == BitShift(off)
      need == BytesNeeded(off, w)
      v0 == Trunc(v, W)                                     \* val as usize
      v1 == IF w < W THEN v0 \cap Ones(w) ELSE v0           \* mask to bit_width
      v2 == IF BE THEN ShrW(Rev(v1, W), W - w, W) ELSE v1   \* reverse to storage order
      v3 == Shl(v2, sh, W)                                  \* val <<= bit_shift  (bit_shift < 8)
      mask == IF Drop = "fieldmask" THEN Ones(W)
              ELSE IF w + sh >= W THEN Shl(Ones(W), sh, W)  \* !0 << bit_shift
              ELSE Shl(Ones(w), sh, W)                      \* ((1 << bit_width) - 1) << bit_shift
      touched == {i \in 0..(need - 1) : start + i < N}
      NewByte(i) ==
        LET bv == Trunc(ShrW(v3, i * 8, W), 8)              \* (val >> (i * 8)) as u8
            bm == Trunc(ShrW(mask, i * 8, W), 8)            \* (field_mask >> (i * 8)) as u8
            old == Byte(st, start + i)
            o == IF BE THEN Rev(old, 8) ELSE old
            nb == (o \ bm) \cup (bv \cap bm)                \* (byte & !mask) | (val & mask)
        IN IF BE THEN Rev(nb, 8) ELSE nb
      rest == {p \in st : (p \div 8 - start) \notin touched}
  IN [st |-> rest \cup UNION {{8 * (start + i) + b : b \in NewByte(i)} : i \in touched},
      ovf |-> \E i \in 0..(need - 1) : i * 8 >= W,
      oob |-> start + need > N]

(* -------------------------------------------------------------------------*)
(* the eight entry points                                                   *)
Get(st, N, off, w, BE) == GetW(64, st, N, off, w, BE)
RawGet(st, N, off, w, BE) == GetW(64, st, N, off, w, BE)
Set(st, N, off, w, v, BE) == SetW(64, st, N, off, w, v, BE)
RawSet(st, N, off, w, v, BE) == SetW(64, st, N, off, w, v, BE)

UsesUsize(USIZE, off, w) == w + BitShift(off) <= USIZE     \* BIT_WIDTH + bit_shift <= usize::BITS
GetConst(USIZE, st, N, off, w, BE) ==
  GetW(IF UsesUsize(USIZE, off, w) THEN USIZE ELSE 64, st, N, off, w, BE)
RawGetConst(USIZE, st, N, off, w, BE) == GetConst(USIZE, st, N, off, w, BE)
SetConst(USIZE, st, N, off, w, v, BE) ==
  SetW(IF UsesUsize(USIZE, off, w) THEN USIZE ELSE 64, st, N, off, w, v, BE)
RawSetConst(USIZE, st, N, off, w, v, BE) == SetConst(USIZE, st, N, off, w, v, BE)

(* get_bit / set_bit (lines 19-91)                                          *)
GetBit(st, idx, BE) == (8 * (idx \div 8) + (IF BE THEN 7 - (idx % 8) ELSE idx % 8)) \in st
SetBit(st, idx, val, BE) ==
  LET p == 8 * (idx \div 8) + (IF BE THEN 7 - (idx % 8) ELSE idx % 8)
  IN IF val THEN st \cup {p} ELSE st \ {p}

(* the shape of the defect region (DESIGN section 8): the shifted extent of *)
(* the field does not fit the 64-bit accumulator                            *)
Extent(off, w) == BitShift(off) + w
=============================================================================
