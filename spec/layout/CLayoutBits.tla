----------------------------- MODULE CLayoutBits -----------------------------
(***************************************************************************)
(* L1 reference: where a C compiler following the SysV / Itanium record    *)
(* layout rule (x86-64 psABI 3.1.2 "Bit-Fields"; clang                     *)
(* ItaniumRecordLayoutBuilder::LayoutField / LayoutBitField) puts the      *)
(* members of a struct or union that contains bit-fields.                  *)
(*                                                                         *)
(* A declaration is  [kind, attr, fields]  with                            *)
(*   kind   "struct" | "union"                                             *)
(*   attr   "none" | "packed" (__attribute__((packed))) | "pack1" "pack2"  *)
(*          "pack4" "pack8" (#pragma pack(n)) | "aligned16"                *)
(*   fields sequence of [ty, bw, named]; bw = -1: ordinary member,         *)
(*          bw >= 0: bit-field of that width (0 only when unnamed)         *)
(* Offsets are in bits, little-endian numbering.  Target: x86_64 LP64.     *)
(***************************************************************************)
EXTENDS Integers, Sequences, FiniteSets

(* A base type is a record [size, align, signed, maxw]; align = size for the built-in types of     *)
(* x86_64, and SMALLER than size for                                                              *)
(*   typedef T name __attribute__((aligned(n)))   (the *_aN entries; n < sizeof(T))               *)
(*   long long on i686 (size 8, align 4): the i686 pass of check C03 feeds its `long long`        *)
(*   bit-fields as llong_a4 / ullong_a4                                                           *)
(* The layout rule takes the field offset modulo the ALIGNMENT and compares with the SIZE.        *)
TA(sz, al, sg) == [size |-> sz, align |-> al, signed |-> sg, maxw |-> 8 * sz]
T(sz, sg) == TA(sz, sz, sg)
Ty == [bool |-> [size |-> 1, align |-> 1, signed |-> FALSE, maxw |-> 1],
       char |-> T(1, TRUE), uchar |-> T(1, FALSE),
       short |-> T(2, TRUE), ushort |-> T(2, FALSE),
       int |-> T(4, TRUE), uint |-> T(4, FALSE),
       llong |-> T(8, TRUE), ullong |-> T(8, FALSE),
       enum |-> T(4, FALSE), senum |-> T(4, TRUE),
       ushort_a1 |-> TA(2, 1, FALSE), short_a1 |-> TA(2, 1, TRUE),
       uint_a1 |-> TA(4, 1, FALSE), uint_a2 |-> TA(4, 2, FALSE), int_a2 |-> TA(4, 2, TRUE),
       ullong_a1 |-> TA(8, 1, FALSE), ullong_a2 |-> TA(8, 2, FALSE),
       ullong_a4 |-> TA(8, 4, FALSE), llong_a4 |-> TA(8, 4, TRUE)]
TypeNames == DOMAIN Ty
Attrs == {"none", "packed", "pack1", "pack2", "pack4", "pack8", "aligned16"}

Max(a, b) == IF a >= b THEN a ELSE b
Min(a, b) == IF a <= b THEN a ELSE b
AlignTo(x, a) == ((x + a - 1) \div a) * a

IsBF(f) == f.bw >= 0
PackedAttr(d) == d.attr = "packed"
MaxFieldAlign(d) ==            \* bytes; 0 = no #pragma pack in force
  CASE d.attr = "pack1" -> 1 [] d.attr = "pack2" -> 2 [] d.attr = "pack4" -> 4
    [] d.attr = "pack8" -> 8 [] OTHER -> 0
ExplicitAlign(d) == IF d.attr = "aligned16" THEN 16 ELSE 1
IsUnion(d) == d.kind = "union"

(* layout state: ds = data size in bits, unfilled = UnfilledBitsInLastUnit, *)
(* align = record alignment in bytes, offs = bit offset of every field      *)
L0 == [ds |-> 0, unfilled |-> 0, align |-> 1, offs |-> <<>>]

LayoutMember(d, s, f) ==
  LET ty == Ty[f.ty]
      fa1 == IF PackedAttr(d) THEN 1 ELSE ty.align
      fa == IF MaxFieldAlign(d) # 0 THEN Min(fa1, MaxFieldAlign(d)) ELSE fa1
      off == IF IsUnion(d) THEN 0 ELSE AlignTo(s.ds, 8 * fa)
  IN [ds |-> IF IsUnion(d) THEN Max(s.ds, 8 * ty.size) ELSE off + 8 * ty.size,
      unfilled |-> 0, align |-> Max(s.align, fa), offs |-> Append(s.offs, off)]

LayoutBitField(d, s, f) ==
  LET ty == Ty[f.ty]
      fsz == f.bw
      unit == 8 * ty.size                                   \* StorageUnitSize
      fo0 == IF IsUnion(d) THEN 0 ELSE s.ds - s.unfilled    \* next available bit
      mfa == 8 * MaxFieldAlign(d)
      fa1 == IF PackedAttr(d) /\ fsz # 0 THEN 1 ELSE 8 * ty.align
      fa == IF mfa # 0 /\ fsz # 0 THEN Min(fa1, mfa) ELSE fa1   \* FieldAlign in bits
      allowPadding == mfa = 0        \* "#pragma pack, with any value, suppresses the insertion of padding"
      fo == IF fsz = 0 \/ (allowPadding /\ (fo0 % fa) + fsz > unit) THEN AlignTo(fo0, fa) ELSE fo0
      ralign == IF f.named THEN Max(1, fa \div 8) ELSE 1    \* unnamed bit-fields do not affect the record alignment
      newsz == fo + fsz
  IN IF IsUnion(d)
     THEN [ds |-> Max(s.ds, AlignTo(fsz, 8)), unfilled |-> 0, align |-> Max(s.align, ralign),
           offs |-> Append(s.offs, fo)]
     ELSE [ds |-> AlignTo(newsz, 8), unfilled |-> AlignTo(newsz, 8) - newsz,
           align |-> Max(s.align, ralign), offs |-> Append(s.offs, fo)]

LayoutField(d, s, f) == IF IsBF(f) THEN LayoutBitField(d, s, f) ELSE LayoutMember(d, s, f)

LayoutPrefix(d) ==
  LET P[i \in 0..Len(d.fields)] == IF i = 0 THEN L0 ELSE LayoutField(d, P[i - 1], d.fields[i]) IN P

CLayout(d) ==
  LET s == LayoutPrefix(d)[Len(d.fields)]
      al == Max(s.align, ExplicitAlign(d))
  IN [offs |-> s.offs, align |-> al, size |-> AlignTo(s.ds, 8 * al) \div 8]

(* what C permits (the generators only build these)                         *)
ValidField(f) ==
  /\ f.ty \in TypeNames
  /\ f.bw >= -1 /\ f.bw <= Ty[f.ty].maxw
  /\ (f.bw = 0 => ~f.named)
  /\ (f.bw = -1 => f.named)
ValidDecl(d) == /\ d.kind \in {"struct", "union"} /\ d.attr \in Attrs
                /\ Len(d.fields) >= 1 /\ \A i \in DOMAIN d.fields : ValidField(d.fields[i])
=============================================================================
