------------------------------- MODULE BitVec -------------------------------
(***************************************************************************)
(* L1 reference semantics of a bit-field inside a byte array, and the      *)
(* machine-word vocabulary used by the L2 transcription (BitUnit.tla).     *)
(*                                                                         *)
(* TLC integers are 32 bit, therefore no value is ever an integer here:    *)
(*   * a W-bit word is the SET of the positions of its 1 bits              *)
(*     (0 = least significant);                                            *)
(*   * a storage of N bytes is the set of its 1 bits in "little" numbering *)
(*     p = 8 * byte index + bit index within the byte (0 = LSB of byte).   *)
(*                                                                         *)
(* C numbering of the bits of an object (what clang's field offsets count) *)
(* on a little-endian target is p itself; on a big-endian target offset q  *)
(* names byte q \div 8, bit 7 - q % 8, and a field's most significant bit  *)
(* is stored at its lowest offset.                                         *)
(***************************************************************************)
EXTENDS Integers, FiniteSets, Sequences

Ones(w) == 0..(w - 1)                       \* (1 << w) - 1, w >= 0
Shl(x, k, W) == {b + k : b \in {c \in x : c + k < W}}   \* x << k in a W-bit word
Shr(x, k) == {b - k : b \in {c \in x : c >= k}}         \* x >> k
Rev(x, W) == {W - 1 - b : b \in x}                      \* reverse_bits of a W-bit word
Trunc(x, W) == {b \in x : b < W}                        \* `as` cast to a narrower word

(* storage position named by C bit offset q                                 *)
Pos(q, BE) == IF BE THEN 8 * (q \div 8) + (7 - (q % 8)) ELSE q

(* ---- the reference: what C reads / stores -------------------------------*)
(* value bit j (0 = LSB) of a field of width w at C bit offset off          *)
FieldPos(off, w, j, BE) == IF BE THEN Pos(off + (w - 1 - j), TRUE) ELSE off + j

RefGet(st, off, w, BE) == {j \in 0..(w - 1) : FieldPos(off, w, j, BE) \in st}

FieldRegion(off, w, BE) == {FieldPos(off, w, j, BE) : j \in 0..(w - 1)}

RefSet(st, off, w, v, BE) ==
  (st \ FieldRegion(off, w, BE)) \cup {FieldPos(off, w, j, BE) : j \in {b \in v : b < w}}

SignExt(x, w, W) == IF (w - 1) \in x THEN x \cup (w..(W - 1)) ELSE x

(* ---- printing: bytes in memory order as a hex string ---------------------*)
HexD == <<"0", "1", "2", "3", "4", "5", "6", "7", "8", "9", "a", "b", "c", "d", "e", "f">>
Nib(x, k) == (IF (4 * k) \in x THEN 1 ELSE 0) + (IF (4 * k + 1) \in x THEN 2 ELSE 0)
             + (IF (4 * k + 2) \in x THEN 4 ELSE 0) + (IF (4 * k + 3) \in x THEN 8 ELSE 0)
HexByte(x, i) == HexD[Nib(x, 2 * i + 1) + 1] \o HexD[Nib(x, 2 * i) + 1]
Hex(x, n) == LET H[i \in 0..n] == IF i = 0 THEN "" ELSE H[i - 1] \o HexByte(x, i - 1) IN H[n]
=============================================================================
