SPECIFICATION Spec
CONSTANTS
  MaxLen = 3
  MaxAttrs = 1
INVARIANTS Emit OffsetsAligned SizeMultipleOfAlign NoOverlap
CHECK_DEADLOCK FALSE
