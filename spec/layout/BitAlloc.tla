------------------------------ MODULE BitAlloc ------------------------------
(***************************************************************************)
(* L2: transcription of the bit-field allocation-unit algorithm of         *)
(* /repo/bindgen/ir/comp.rs                                                *)
(*   raw_fields_to_fields_and_bitfield_units  (runs of consecutive         *)
(*                                             bit-fields)                 *)
(*   bitfields_to_allocation_units            (one step per raw field)     *)
(*   flush_allocation_unit                                                 *)
(*   CompInfo::is_packed                      (the `packed` argument)      *)
(* Inputs per raw field: declared type's (size, align), width, whether it  *)
(* is named, and the bit offset libclang reports for it (here: CLayout).   *)
(***************************************************************************)
EXTENDS CLayoutBits

CONSTANT Variant   \* "code": as transcribed.  Sensitivity self-tests: "floorSize": unit size rounded
                   \* down; "moduloSize": the straddle test takes the offset modulo the type's SIZE
                   \* instead of its ALIGNMENT (differs only for types with align < size)

(* CompInfo::is_packed at the time the units are computed: the attribute, or some member type
   (bit-field or not) more aligned than the record                                          *)
IsPacked(d) ==
  \/ PackedAttr(d)
  \/ \E i \in DOMAIN d.fields : Ty[d.fields[i].ty].align > CLayout(d).align

(* local variables of bitfields_to_allocation_units at the start of a run   *)
Run0 == [start |-> 0, maxAlign |-> 0, unitSize |-> 0, bfs |-> <<>>]

(* body of `for bitfield in raw_bitfields` (comp.rs 588-632); i = index of the raw field,
   coff = bitfield.offset()                                                               *)
StepBitfield(r, i, f, coff, packed) ==
  LET w == f.bw
      al == Ty[f.ty].align
      sz == Ty[f.ty].size
      start == IF r.unitSize = 0 THEN coff ELSE r.start
      off == IF ~packed /\ coff # 0 /\ (w = 0 \/ (coff % ((IF Variant = "moduloSize" THEN sz ELSE al) * 8)) + w > sz * 8)
             THEN AlignTo(coff, al * 8) ELSE coff
  IN [start |-> start,
      maxAlign |-> IF f.named THEN Max(r.maxAlign, al) ELSE r.maxAlign,
      unitSize |-> off - start + w,
      bfs |-> Append(r.bfs, [i |-> i, off |-> off - start, w |-> w, named |-> f.named])]

(* after the loop: flush_allocation_unit unless nothing was allocated        *)
Flush(units, r) ==
  IF r.unitSize = 0 THEN units
  ELSE Append(units, [nth |-> Len(units) + 1, start |-> r.start,
                      size |-> IF Variant = "floorSize" THEN r.unitSize \div 8 ELSE AlignTo(r.unitSize, 8) \div 8,
                      bfs |-> r.bfs])

(* the whole algorithm as a function (used by trace validation and by the generators): state
   after the first i raw fields                                                             *)
AllocPrefix(d, coffs, packed) ==
  LET n == Len(d.fields)
      A[i \in 0..n] ==
        IF i = 0 THEN [units |-> <<>>, run |-> Run0, inRun |-> FALSE]
        ELSE LET p == A[i - 1]  f == d.fields[i] IN
             IF IsBF(f)
             THEN [units |-> p.units, inRun |-> TRUE,
                   run |-> StepBitfield(IF p.inRun THEN p.run ELSE Run0, i, f, coffs[i], packed)]
             ELSE [units |-> IF p.inRun THEN Flush(p.units, p.run) ELSE p.units,
                   run |-> Run0, inRun |-> FALSE]
  IN A

Alloc(d, coffs, packed) ==
  LET a == AllocPrefix(d, coffs, packed)[Len(d.fields)]
  IN IF a.inRun THEN Flush(a.units, a.run) ELSE a.units

(* ---- L3: what the units must satisfy -----------------------------------*)
(* every named bit-field is found at its C bit offset ...                  *)
OffsetsAgree(d, coffs, units) ==
  \A u \in DOMAIN units : \A k \in DOMAIN units[u].bfs :
    LET b == units[u].bfs[k] IN
    b.named => /\ units[u].start % 8 = 0
               /\ 8 * (units[u].start \div 8) + b.off = coffs[b.i]
(* ... inside the unit's storage                                            *)
UnitCovers(units) ==
  \A u \in DOMAIN units : \A k \in DOMAIN units[u].bfs :
    LET b == units[u].bfs[k] IN b.named => b.off + b.w <= 8 * units[u].size
(* every named bit-field is allocated to exactly one unit                   *)
AllAllocated(d, units) ==
  \A i \in DOMAIN d.fields :
    (IsBF(d.fields[i]) /\ d.fields[i].named) =>
      Cardinality({u \in DOMAIN units : \E k \in DOMAIN units[u].bfs : units[u].bfs[k].i = i}) = 1

(* ---- shapes of the two known defects (reported through the real toolchain by check C03) ----*)
(* (A) in a union every bit-field starts at bit 0 and the unit is sized by the LAST field     *)
RegionUnionRun(d) ==
  IsUnion(d) /\ \E i \in 1..(Len(d.fields) - 1) : IsBF(d.fields[i]) /\ IsBF(d.fields[i + 1])
(* (B) #pragma pack(n) that is_packed cannot see (no member type more aligned than the record):
   clang inserts no padding before a straddling bit-field, the algorithm re-aligns it          *)
RegionPragmaUnseen(d) == MaxFieldAlign(d) # 0 /\ ~IsPacked(d)
=============================================================================
