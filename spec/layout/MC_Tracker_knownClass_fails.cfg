SPECIFICATION Spec
CONSTANTS
  MaxLen = 2
  MaxAttrs = 1
  PadFix = TRUE
INVARIANTS KnownClassAgrees
CHECK_DEADLOCK FALSE
