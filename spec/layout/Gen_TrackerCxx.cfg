SPECIFICATION Spec
CONSTANTS
    PadFix = TRUE
    SawBaseCountsGap = TRUE
    MaxBases = 2
    MaxFields = 2
    EmitClasses = TRUE
INVARIANTS Emitted
CHECK_DEADLOCK FALSE
