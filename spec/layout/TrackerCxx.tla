----------------------------- MODULE TrackerCxx -----------------------------
(***************************************************************************)
(* C++ classes: a vtable pointer, non-virtual base classes, then members.    *)
(*                                                                           *)
(* L1 (CxxLayout): the Itanium C++ ABI record layout restricted to           *)
(* non-virtual bases with storage: an own vtable pointer at 0, each base at  *)
(* the next offset aligned for it, members behind.  What follows a base that *)
(* is not POD for the purpose of layout may be put into that base's tail     *)
(* padding: the base contributes its DATA size (dsize), not sizeof.          *)
(*                                                                           *)
(* L2 (transcribed from CompInfo::codegen / StructLayoutTracker):            *)
(*   saw_vtable  offset += 8, latest field = (8, 8), max_field_align = 8     *)
(*               (an assignment, as written)                                 *)
(*   saw_base    align_to_latest_field, offset += padding + sizeof(base)     *)
(*               - always the full size: the tracker knows nothing of dsize  *)
(*   then the members and the tail exactly as Tracker.tla (EmitFrom).        *)
(*                                                                           *)
(* L3 (MC_TrackerCxx): size, alignment, base and member offsets agree with   *)
(* C++ outside the recorded class of finding `cxx-tail-padding-reuse` (a     *)
(* non-POD base with tail padding that something is placed into).            *)
(* SawBaseCountsGap = FALSE is the mutant of saw_base that forgets the       *)
(* alignment gap in front of a base (must fail).                             *)
(***************************************************************************)
EXTENDS Tracker

CONSTANT SawBaseCountsGap

(* class: [vptr, bases: Seq [size, align, dsize, pod], fields: Seq [size, align, maligned]] *)
Contribution(b) == IF b.pod THEN b.size ELSE b.dsize

RECURSIVE PlaceBases(_, _, _)
PlaceBases(bs, i, cur) ==        \* <<offsets, end>>
  IF i > Len(bs) THEN <<<<>>, cur>>
  ELSE LET o == RoundUp(cur, bs[i].align)
           rest == PlaceBases(bs, i + 1, o + Contribution(bs[i]))
       IN <<<<o>> \o rest[1], rest[2]>>

RECURSIVE PlaceFields(_, _, _)
PlaceFields(fs, i, cur) ==
  IF i > Len(fs) THEN <<<<>>, cur>>
  ELSE LET o == RoundUp(cur, fs[i].align)
           rest == PlaceFields(fs, i + 1, o + fs[i].size)
       IN <<<<o>> \o rest[1], rest[2]>>

CxxLayout(c) ==
  LET start == IF c.vptr THEN 8 ELSE 0
      pb == PlaceBases(c.bases, 1, start)
      pf == PlaceFields(c.fields, 1, pb[2])
      RECURSIVE MA(_, _)
      MA(s, i) == IF i > Len(s) THEN 1 ELSE Max(s[i].align, MA(s, i + 1))
      al == Max(Max(MA(c.bases, 1), MA(c.fields, 1)), IF c.vptr THEN 8 ELSE 1)
      dsize == pf[2]
  IN [boffs |-> pb[1], foffs |-> pf[1], align |-> al, dsize |-> dsize,
      size |-> RoundUp(Max(dsize, 1), al)]

(* something is placed into the tail padding of a non-POD base *)
TailReuse(c) ==
  \E i \in DOMAIN c.bases : ~c.bases[i].pod /\ c.bases[i].dsize < c.bases[i].size
                            /\ (i < Len(c.bases) \/ Len(c.fields) > 0)

(* ---- tracker ------------------------------------------------------------------------------*)
SawVtable(t) == [off |-> t.off + 8, last |-> [size |-> 8, align |-> 8, some |-> TRUE], maxalign |-> 8,
                 out |-> Append(t.out, [size |-> 8, align |-> 8, member |-> 200])]

SawBase(t, b, k) ==
  LET off1 == IF ~t.last.some THEN t.off ELSE AlignTo(t.off, t.last.align)       \* align_to_latest_field (never packed here)
      gap == AlignTo(off1, b.align) - off1
  IN [off |-> off1 + (IF SawBaseCountsGap THEN gap ELSE 0) + b.size,
      last |-> [size |-> b.size, align |-> b.align, some |-> TRUE],
      maxalign |-> Max(t.maxalign, b.align),
      out |-> Append(t.out, [size |-> b.size, align |-> b.align, member |-> 100 + k])]

RECURSIVE Bases(_, _, _)
Bases(bs, k, t) == IF k > Len(bs) THEN t ELSE Bases(bs, k + 1, SawBase(t, bs[k], k))

EmitClass(c, force) ==
  LET L == CxxLayout(c)
      info == [kind |-> "struct", fields |-> c.fields, coffs |-> L.foffs, csize |-> L.size, calign |-> L.align,
               ispacked |-> \E j \in DOMAIN c.fields : c.fields[j].align > L.align,
               alreadypacked |-> FALSE]
      t0 == Bases(c.bases, 1, IF c.vptr THEN SawVtable(T0) ELSE T0)
  IN EmitFrom(info, t0, force, FALSE, TRUE)

(* ---- L3 -----------------------------------------------------------------------------------*)
OffsetOf(r, m) == ROffsets(r)[CHOOSE k \in DOMAIN r.fields : r.fields[k].member = m]
ClassAgrees(c, r) ==
  LET L == CxxLayout(c) IN
  /\ RWellFormed(r) /\ RSize(r) = L.size /\ RAlign(r) = L.align
  /\ \A k \in DOMAIN c.bases : OffsetOf(r, 100 + k) = L.boffs[k]
  /\ \A j \in DOMAIN c.fields : OffsetOf(r, j) = L.foffs[j]
  /\ (c.vptr => OffsetOf(r, 200) = 0)
=============================================================================
