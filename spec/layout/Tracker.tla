------------------------------- MODULE Tracker -------------------------------
(***************************************************************************)
(* L2: what bindgen does to lay out a composite without bit-fields, bases   *)
(* or a vtable pointer: `StructLayoutTracker` (codegen/struct_layout.rs)    *)
(* and the decisions of `CompInfo::codegen` that turn its answers into      *)
(* `#[repr]` attributes - transcribed action by action:                     *)
(*   SawField (align_to_latest_field, padding_bytes, padding layout, blob), *)
(*   AddTailPadding, PadStruct, RequiresExplicitAlign, IsPacked,            *)
(*   AlreadyPacked, the union blob / Rust-union branch.                     *)
(* Input is what libclang tells the code about the record: per member the   *)
(* layout of its type and its offset, and the record's size and alignment   *)
(* (computed here by CLayout.tla).  Output: the emitted Rust fields         *)
(* [size, align, member index or 0] and the repr attributes; RustLayout.tla  *)
(* says what rustc makes of them.  L3 (MC_Tracker): that equals the C       *)
(* layout.                                                                   *)
(***************************************************************************)
EXTENDS CLayout, RustLayout

MaxGuaranteedAlign == 8
AlignTo(size, align) == IF align = 0 THEN size ELSE RoundUp(size, align)

(* Rust layout of helpers::blob(Layout(size, align)) *)
BlobLayout(size, align0) ==
  LET align == Max(align0, 1) IN
  IF align <= 4 THEN [size |-> (size \div align) * align, align |-> align]
  ELSE [size |-> RoundUp(size, align), align |-> align]       \* __BindgenOpaqueArrayN<[u8; size]>, repr(C, align(N))

(* Layout::for_size: largest power of two <= pointer size dividing the size *)
ForSizeAlign(size) ==
  IF size % 8 = 0 THEN 8 ELSE IF size % 4 = 0 THEN 4 ELSE IF size % 2 = 0 THEN 2 ELSE 1

(* CompInfo::is_packed: the attribute, or #pragma pack detected through its effect *)
IsPacked(d) == d.packed \/ \E j \in DOMAIN d.fields : d.fields[j].align > CAlign(d)
(* CompInfo::already_packed: members need no padding at their natural alignment *)
AlreadyPacked(d) ==
  LET RECURSIVE Ok(_, _)
      Ok(j, total) == IF j > Len(d.fields) THEN TRUE
                      ELSE IF d.fields[j].align # 0 /\ total % d.fields[j].align # 0 THEN FALSE
                      ELSE Ok(j + 1, total + d.fields[j].size)
  IN Ok(1, 0)

(* what the code knows about a record, from CLayout (model) or from a comp event (trace) *)
InfoOf(d) == [kind |-> d.kind, fields |-> d.fields, coffs |-> COffsets(d), csize |-> CSize(d), calign |-> CAlign(d),
              ispacked |-> IsPacked(d), alreadypacked |-> AlreadyPacked(d)]

(* tracker state *)
T0 == [off |-> 0, last |-> [size |-> 0, align |-> 0, some |-> FALSE], maxalign |-> 0, out |-> <<>>]

(* saw_field_with_layout for member j; PadFix = TRUE models the repaired padding alignment *)
SawField(d, t, j, force, PadFix) ==
  LET f == d.fields[j]
      packed == d.ispacked
      union == d.kind = "union"
      clay == [size |-> d.csize, align |-> d.calign]
      (* align_to_latest_field (never merges: no bit-fields here) *)
      off1b == IF packed \/ ~t.last.some THEN t.off ELSE AlignTo(t.off, t.last.align)
      coff == d.coffs[j]
      pad == IF coff > off1b THEN coff - off1b
             ELSE IF f.align = 0 \/ union THEN 0
             ELSE IF ~packed THEN AlignTo(off1b, f.align) - off1b
             ELSE AlignTo(off1b, Min(f.align, clay.align)) - off1b
      off2 == off1b + pad
      need == force \/ pad >= f.align \/ f.align > MaxGuaranteedAlign
      palign0 == IF force THEN 1 ELSE Min(f.align, MaxGuaranteedAlign)
      palign == IF PadFix /\ palign0 # 0 /\ pad % Max(palign0, 1) # 0 THEN 1 ELSE palign0
      haspad == ~packed /\ ~union /\ need /\ pad # 0
      padrec == [size |-> BlobLayout(pad, palign).size, align |-> BlobLayout(pad, palign).align, member |-> 0]
      off3 == IF union THEN Max(off2, f.size) ELSE off2 + f.size
  IN [off |-> off3, last |-> [size |-> f.size, align |-> f.align, some |-> TRUE],
      maxalign |-> Max(Max(t.maxalign, f.align), IF haspad THEN palign ELSE 0),
      out |-> (IF haspad THEN Append(t.out, padrec) ELSE t.out)
              \o <<[size |-> f.size, align |-> f.align, member |-> j]>>]

RECURSIVE Fields(_, _, _, _, _)
Fields(d, t, j, force, PadFix) ==
  IF j > Len(d.fields) THEN t ELSE Fields(d, SawField(d, t, j, force, PadFix), j + 1, force, PadFix)

(* the whole composite: emitted fields + repr.  tstart = the tracker before the first member: T0, or what  *)
(* saw_vtable / saw_base left (TrackerCxx.tla)                                                              *)
EmitFrom(d, tstart, force, rustUnion, PadFix) ==
  LET t1 == Fields(d, tstart, 1, force, PadFix)
      packed0 == d.ispacked
      union == d.kind = "union"
      clay == [size |-> d.csize, align |-> d.calign]
      (* add_tail_padding (explicit padding only, not for Rust unions) *)
      tail == force /\ ~union /\ t1.off < clay.size      \* (after the repair: never for unions)
      t2 == IF tail THEN [t1 EXCEPT !.out = Append(@, [size |-> BlobLayout(clay.size - t1.off, 0).size, align |-> 1, member |-> 0]),
                                    !.maxalign = Max(@, 0),
                                    !.off = clay.size]     \* (after the repair beaa0320: the tail padding advances the offset)
            ELSE t1
      zero == clay.size = 0
      (* pad_struct, struct path *)
      padbytes == IF clay.size < t2.off THEN 0 ELSE clay.size - t2.off
      dopad == ~union /\ ~zero /\ clay.size >= t2.off /\ padbytes # 0 /\ padbytes >= clay.align
      playout == IF packed0 THEN [size |-> padbytes, align |-> 1]
                 ELSE IF clay.align > MaxGuaranteedAlign THEN [size |-> padbytes, align |-> ForSizeAlign(padbytes)]
                 ELSE [size |-> padbytes, align |-> clay.align]
      t3 == IF dopad THEN [t2 EXCEPT !.out = Append(@, [size |-> BlobLayout(playout.size, playout.align).size,
                                                       align |-> BlobLayout(playout.size, playout.align).align, member |-> 0]),
                                     !.maxalign = Max(@, playout.align)]
            ELSE t2
      reqalign == IF t3.maxalign >= 16 THEN TRUE ELSE IF t3.maxalign >= clay.align THEN FALSE ELSE TRUE
      structpath == ~union /\ ~zero
      packed1 == IF structpath /\ reqalign /\ clay.align = 1 THEN TRUE ELSE packed0
      explicit == IF structpath THEN (IF reqalign /\ clay.align # 1 THEN clay.align ELSE 0)
                  ELSE IF union THEN (IF reqalign THEN clay.align ELSE 0) ELSE 0
      t4 == IF union /\ ~rustUnion
            THEN [t3 EXCEPT !.out = Append(@, [size |-> BlobLayout(clay.size, clay.align).size,
                                              align |-> BlobLayout(clay.size, clay.align).align, member |-> 0])]
            ELSE t3
      usepacked == packed1 /\ ~(explicit # 0 /\ d.alreadypacked)
  IN [kind |-> IF union /\ rustUnion THEN "union" ELSE "struct",
      (* a bindgen-wrapper union: members are zero-sized __BindgenUnionField<T> followed by the blob *)
      fields |-> IF union /\ ~rustUnion
                 THEN [k \in DOMAIN t4.out |-> IF t4.out[k].member # 0 THEN [size |-> 0, align |-> 1, member |-> t4.out[k].member] ELSE t4.out[k]]
                 ELSE t4.out,
      packed |-> IF usepacked THEN clay.align ELSE 0,
      align |-> explicit]

EmitInfo(d, force, rustUnion, PadFix) == EmitFrom(d, T0, force, rustUnion, PadFix)
EmitRec(d, force, rustUnion, PadFix) == EmitInfo(InfoOf(d), force, rustUnion, PadFix)

(* offsets rustc gives to the members of the C declaration *)
MemberOffsets(d, r) ==
  LET offs == ROffsets(r) IN
  [j \in DOMAIN d.fields |-> offs[CHOOSE k \in DOMAIN r.fields : r.fields[k].member = j]]

Agrees(d, r) ==
  /\ RWellFormed(r)
  /\ RSize(r) = CSize(d)
  /\ RAlign(r) = CAlign(d)
  /\ MemberOffsets(d, r) = COffsets(d)
=============================================================================
