----------------------------- MODULE MC_BitUnit -----------------------------
(***************************************************************************)
(* Bounded model of C03 part (a): every (storage size, bit offset, width)  *)
(* that fits, boundary tokens, two backgrounds, both byte orders, the L2   *)
(* transcription (BitUnit) against the L1 reference (BitVec).              *)
(*                                                                         *)
(* The same module is the behaviour generator of the arithmetic sweep R1:  *)
(* with Emit = TRUE every finished case is printed as one JSON record      *)
(* carrying the inputs, the reference result and the L2 prediction (value  *)
(* without overflow checks, `ovf` = a build with overflow checks panics).  *)
(*                                                                         *)
(* One behaviour = pick a case (Init), evaluate it (Eval).                 *)
(***************************************************************************)
EXTENDS BitUnit, TLC, Json

CONSTANTS Sizes,      \* storage sizes in bytes
          Endians,    \* subset of BOOLEAN: FALSE little, TRUE big
          USIZE,      \* usize::BITS of the target (64 or 32)
          Guarded,    \* TRUE: conformance is claimed outside the known defect region only
          Emit,       \* TRUE: print one record per case
          MaxWidth,   \* 64
          FullBg      \* TRUE: every token on both backgrounds; FALSE: the all-ones background with
                      \* the tokens zero / ones / rnd only (quick tier)

VARIABLES c, out
vars == <<c, out>>

Rnd == {0, 2, 4, 10, 11, 12, 13, 14, 17, 19, 22, 24, 25, 26, 27, 28, 29, 30, 32, 35, 36, 37, 39,
        40, 43, 44, 45, 46, 48, 49, 50, 52, 53, 57, 58, 59, 60, 63}      \* 0x9E3779B97F4A7C15
TokNames == <<"zero", "one", "ones", "sign", "x55", "xaa", "rnd">>
Tok(name, w) ==
  CASE name = "zero" -> {}
    [] name = "one" -> {0}
    [] name = "ones" -> 0..63
    [] name = "sign" -> {w - 1}
    [] name = "x55" -> {b \in 0..63 : b % 2 = 0}
    [] name = "xaa" -> {b \in 0..63 : b % 2 = 1}
    [] name = "rnd" -> Rnd
BgNames == <<"00", "ff">>
Bg(name, N) == IF name = "00" THEN {} ELSE 0..(8 * N - 1)

Cases == {cc \in [n : Sizes, off : 0..(8 * 16 - 1), w : 1..MaxWidth, be : Endians] :
            cc.off + cc.w <= 8 * cc.n}

Init == c \in Cases /\ out = <<>>

(* the word width the *_const forms compute with                            *)
WSel(off, w) == IF UsesUsize(USIZE, off, w) THEN USIZE ELSE 64

EvalOne(bgn, tn) ==
  LET N == c.n  off == c.off  w == c.w  be == c.be
      bg == Bg(bgn, N)
      v == Tok(tn, w)
      refst == RefSet(bg, off, w, v, be)
      refget == Trunc(v, w)
      (* run-time forms (u64 arithmetic); skipped in the 32-bit run whose subject is the usize branch *)
      s64 == Set(bg, N, off, w, v, be)
      g64 == Get(refst, N, off, w, be)
      (* const forms: the very same operator when the selected word is 64 bit wide *)
      sc == IF WSel(off, w) = 64 THEN s64 ELSE SetConst(USIZE, bg, N, off, w, v, be)
      gc == IF WSel(off, w) = 64 THEN g64 ELSE GetConst(USIZE, refst, N, off, w, be)
      rt == USIZE = 64
  IN [bg |-> bgn, tok |-> tn, v |-> Hex(v, 8), refst |-> Hex(refst, N), refget |-> Hex(refget, 8),
      l2set |-> Hex(IF rt THEN s64.st ELSE sc.st, N), l2get |-> Hex(IF rt THEN g64.val ELSE gc.val, 8),
      ovf |-> IF rt THEN s64.ovf \/ g64.ovf ELSE sc.ovf \/ gc.ovf,
      oob |-> sc.oob \/ gc.oob,
      okset |-> (rt => s64.st = refst) /\ sc.st = refst,
      okget |-> (rt => g64.val = refget) /\ gc.val = refget,
      (* read-back of a wider view: the reference itself is consistent *)
      okref |-> RefGet(refst, off, w, be) = refget
                /\ (w = 1 => GetBit(refst, off, be) = (0 \in v)
                             /\ SetBit(bg, off, 0 \in v, be) = refst)]

Pairs == [i \in 1..Len(TokNames) |-> <<"00", TokNames[i]>>]
         \o (IF FullBg THEN [i \in 1..Len(TokNames) |-> <<"ff", TokNames[i]>>]
             ELSE <<<<"ff", "zero">>, <<"ff", "ones">>, <<"ff", "rnd">>>>)

Eval == /\ out = <<>>
        /\ out' = [i \in 1..Len(Pairs) |-> EvalOne(Pairs[i][1], Pairs[i][2])]
        /\ UNCHANGED c

Next == Eval
Spec == Init /\ [][Next]_vars

Done == out # <<>>
InRegion == Extent(c.off, c.w) > 64

(* L2 = L1 (outside the region of the known defect when Guarded)            *)
Conforms ==
  Done /\ (Guarded => ~InRegion) =>
    \A i \in DOMAIN out : out[i].okset /\ out[i].okget /\ ~out[i].ovf /\ ~out[i].oob
RefConsistent == Done => \A i \in DOMAIN out : out[i].okref
(* characterisation of the defect region: a checked build panics on every call, an unchecked
   build stores / reads a wrong value for some token                                       *)
DefectRegion ==
  Done /\ InRegion =>
    /\ \A i \in DOMAIN out : out[i].ovf
    /\ \E i \in DOMAIN out : ~out[i].okset
    /\ \E i \in DOMAIN out : ~out[i].okget
Precond == Precondition(c.n, c.off, c.w)

Emitted ==
  Done /\ Emit =>
    PrintT(<<"CASE", ToJson([n |-> c.n, off |-> c.off, w |-> c.w, be |-> c.be,
                             cases |-> [i \in DOMAIN out |->
                                [bg |-> out[i].bg, tok |-> out[i].tok, v |-> out[i].v, refst |-> out[i].refst,
                                 refget |-> out[i].refget, l2set |-> out[i].l2set, l2get |-> out[i].l2get,
                                 ovf |-> out[i].ovf]]])>>)
=============================================================================
