SPECIFICATION Spec
CONSTANTS
    PadFix = TRUE
    SawBaseCountsGap = TRUE
    MaxBases = 2
    MaxFields = 2
    EmitClasses = FALSE
INVARIANTS ReuseNeverHurts
CHECK_DEADLOCK FALSE
