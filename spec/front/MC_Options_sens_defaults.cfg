SPECIFICATION Spec
CONSTANTS
    Ideal = TRUE
    Mode = "single"
    MaxLen = 1
    Mutation = "defaults"
INVARIANTS Law DefaultsEqual
CHECK_DEADLOCK FALSE
