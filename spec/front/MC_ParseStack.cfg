SPECIFICATION Spec
CONSTANTS
  N = 3
  MaxRefs = 2
  Guard = TRUE
INVARIANTS NoDeclTwice Bounded PushedOnce WellNested EmptyAtEnd AllBuilt
PROPERTIES Terminates
CHECK_DEADLOCK FALSE
