SPECIFICATION Spec
CONSTANTS
    Ideal = FALSE
    Mode = "seq"
    MaxLen = 4
    Mutation = "none"
INVARIANTS Law DefaultsEqual
CHECK_DEADLOCK FALSE
