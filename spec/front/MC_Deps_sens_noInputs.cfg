SPECIFICATION Spec
CONSTANTS
  N = 2
  SearchPath <- NoPath
  Names <- ShapeNames
  Forms = {"q"}
  Guards = {"none"}
  Actives = {TRUE}
  DeadNames <- ShapeNames
  MaxFan = 1
  Layouts <- ShapeLayouts
  RootChoices <- OneRoot
  ArgIncludes <- NoArgInclude
  Variant = "noInputs"
INVARIANTS Exact
CHECK_DEADLOCK FALSE
