----------------------------- MODULE Allowlist -----------------------------
(***************************************************************************)
(* L1 + L2 of allowlisting (ir/context.rs::compute_allowlisted_and_        *)
(* codegen_items, ir/traversal.rs::ItemTraversal).                          *)
(*                                                                         *)
(* A graph G has nodes[n].edges (sequence of <<to, kind>> as Trace yields  *)
(* them), nodes[n].blocklisted, nodes[n].enabled, and options opt.         *)
(* L1: the allowlisted set is everything reachable from the roots (through *)
(* blocklisted items too: only their own emission is suppressed) minus the *)
(* blocklisted items; the codegen set is the same over edges that lead to  *)
(* kinds enabled for code generation.                                       *)
(* L2: the traversal machine (seen / queue / out), LIFO as the code does   *)
(* or FIFO, one step per `next()`.                                          *)
(***************************************************************************)
EXTENDS Naturals, Sequences, FiniteSets, TLC

Range(s) == {s[i] : i \in DOMAIN s}

TypeEdges == {"TemplateParameterDefinition", "TemplateArgument", "TemplateDeclaration",
              "BaseMember", "Field", "InnerType", "FunctionReturn", "FunctionParameter",
              "VarType", "TypeReference"}

(* traversal predicates of ir/traversal.rs *)
Follow(G, pred, e) ==
  CASE pred = "all" -> TRUE
    [] pred = "inner" -> e[2] = "InnerType"
    [] pred = "codegen" ->
         IF e[2] = "Generic" THEN G.nodes[e[1]].enabled
         ELSE IF e[2] \in TypeEdges THEN G.opt.cc_types
         ELSE IF e[2] = "InnerVar" THEN G.opt.cc_vars
         ELSE IF e[2] = "Method" THEN G.opt.cc_methods
         ELSE IF e[2] = "Constructor" THEN G.opt.cc_constructors
         ELSE IF e[2] = "Destructor" THEN G.opt.cc_destructors
         ELSE TRUE

Succ(G, pred, n) == {e[1] : e \in {e \in Range(G.nodes[n].edges) : Follow(G, pred, e)}}

(* L1: reachability, by Kleene iteration *)
Reach(G, roots, pred) ==
  LET RECURSIVE It(_)
      It(S) == LET T == S \cup UNION {Succ(G, pred, n) : n \in S}
               IN IF T = S THEN S ELSE It(T)
  IN It(roots)

NotBlocked(G, S) == {n \in S : ~G.nodes[n].blocklisted}

AllowPred(G) == IF G.opt.allowlist_recursively THEN "all" ELSE "inner"
ExpectedAllow(G, roots) == NotBlocked(G, Reach(G, roots, AllowPred(G)))
ExpectedCodegen(G, roots) ==
  IF G.opt.allowlist_recursively THEN NotBlocked(G, Reach(G, roots, "codegen"))
  ELSE ExpectedAllow(G, roots)

(* L1 facts about the two sets *)
CodegenSubset(G, roots) == ExpectedCodegen(G, roots) \subseteq ExpectedAllow(G, roots)
(* self-contained: everything an emitted item refers to (over followed edges) is emitted too,
   unless the user blocklisted it *)
Closed(G, S, pred) == \A n \in S : \A m \in Succ(G, pred, n) :
                         m \in S \/ G.nodes[m].blocklisted \/ ~\E p \in {n} : TRUE
=============================================================================
