SPECIFICATION Spec
CONSTANTS
  Alphabet = {"a", "b"}
  MaxLen = 3
  Depth = 1
INVARIANTS SearchIsWhole
CHECK_DEADLOCK FALSE
