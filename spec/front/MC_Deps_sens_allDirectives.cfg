SPECIFICATION Spec
CONSTANTS
  N = 3
  SearchPath <- NoPath
  Names <- ShapeNames
  Forms = {"q"}
  Guards = {"none"}
  Actives = {TRUE, FALSE}
  DeadNames <- ShapeNames
  MaxFan = 2
  Layouts <- ShapeLayouts
  RootChoices <- OneRoot
  ArgIncludes <- NoArgInclude
  Variant = "allDirectives"
INVARIANTS Exact
CHECK_DEADLOCK FALSE
