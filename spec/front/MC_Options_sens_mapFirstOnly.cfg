SPECIFICATION Spec
CONSTANTS
    Ideal = TRUE
    Mode = "seq"
    MaxLen = 2
    Mutation = "mapFirstOnly"
INVARIANTS Law DefaultsEqual
CHECK_DEADLOCK FALSE
