SPECIFICATION Spec
CONSTANTS
    Ideal = TRUE
    Mode = "seq"
    MaxLen = 4
    Mutation = "none"
INVARIANTS Law DefaultsEqual
CHECK_DEADLOCK FALSE
