SPECIFICATION Spec
CONSTANTS
  N = 3
  SearchPath <- NoPath
  Names <- ShapeNames
  Forms = {"q"}
  Guards = {"none", "guard", "once"}
  Actives = {TRUE, FALSE}
  DeadNames <- ShapeNames
  MaxFan = 2
  Layouts <- ShapeLayouts
  RootChoices <- TwoRoots
  ArgIncludes <- NoArgInclude
  Variant = "code"
INVARIANTS Emitted TypeOK ReadIsInfluencing Exact Complete NothingExtra LinesCover
CHECK_DEADLOCK FALSE
