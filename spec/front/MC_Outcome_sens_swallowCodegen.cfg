SPECIFICATION Spec
CONSTANTS
  Variant = "swallowCodegen"
INVARIANTS AllowedResult
CHECK_DEADLOCK FALSE
