SPECIFICATION Spec
CONSTANTS
    Ideal = TRUE
    Mode = "seq"
    MaxLen = 2
    Mutation = "dropSecond"
INVARIANTS Law DefaultsEqual
CHECK_DEADLOCK FALSE
