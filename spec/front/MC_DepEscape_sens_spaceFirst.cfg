SPECIFICATION Spec
CONSTANTS
  Alphabet <- Alpha3
  Reader = "ref"
  EscVariant = "spaceFirst"
INVARIANTS RoundTripOK
CHECK_DEADLOCK FALSE
