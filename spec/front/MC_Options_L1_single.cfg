SPECIFICATION Spec
CONSTANTS
    Ideal = TRUE
    Mode = "single"
    MaxLen = 1
    Mutation = "none"
INVARIANTS Law DefaultsEqual
CHECK_DEADLOCK FALSE
