SPECIFICATION Spec
CONSTANTS
  Variant = "nightly0Panics"
INVARIANTS NeverBad
CHECK_DEADLOCK FALSE
