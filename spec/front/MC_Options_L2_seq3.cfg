SPECIFICATION Spec
CONSTANTS
    Ideal = FALSE
    Mode = "seq"
    MaxLen = 3
    Mutation = "none"
INVARIANTS Law DefaultsEqual
CHECK_DEADLOCK FALSE
