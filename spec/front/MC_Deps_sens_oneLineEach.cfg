SPECIFICATION Spec
CONSTANTS
  N = 3
  SearchPath <- NoPath
  Names <- ShapeNames
  Forms = {"q"}
  Guards = {"none", "guard"}
  Actives = {TRUE}
  DeadNames <- ShapeNames
  MaxFan = 2
  Layouts <- ShapeLayouts
  RootChoices <- OneRoot
  ArgIncludes <- NoArgInclude
  Variant = "code"
INVARIANTS OneLineEach
CHECK_DEADLOCK FALSE
