SPECIFICATION Spec
CONSTANTS
  N = 3
  SearchPath <- NoPath
  Names <- ShapeNames
  Forms = {"q"}
  Guards = {"none", "once"}
  Actives = {TRUE, FALSE}
  DeadNames <- ShapeNames
  MaxFan = 1
  Layouts <- ShapeLayouts
  RootChoices <- OneRoot
  ArgIncludes <- ArgInclude1
  Variant = "code"
INVARIANTS Exact
CHECK_DEADLOCK FALSE
