------------------------------- MODULE Regex -------------------------------
(***************************************************************************)
(* L1 of regex_set.rs: a set of patterns matches a name iff some pattern,   *)
(* as a regular expression, matches the WHOLE name (patterns are anchored), *)
(* an empty set matches nothing.  Regular expressions are small ASTs;       *)
(* every (pattern set, string) of the bounded universe is printed with the  *)
(* expected answer and replayed on the real RegexSet (verif_regex_matches). *)
(***************************************************************************)
EXTENDS RegexSem, Json

CONSTANTS Alphabet, MaxLen, Depth

RECURSIVE Exprs(_)
Exprs(d) ==
  IF d = 0 THEN {Lit(c) : c \in Alphabet} \cup {AnyC}
  ELSE LET E == Exprs(d - 1) IN
       E \cup {Star(e) : e \in E} \cup {Cat(a, b) : a \in E, b \in E} \cup {Alt(a, b) : a \in E, b \in E}

Strings == UNION {[1..n -> Alphabet] : n \in 0..MaxLen}
Str(s) == LET RECURSIVE F(_) F(i) == IF i > Len(s) THEN "" ELSE s[i] \o F(i + 1) IN F(1)

VARIABLES r, s
Init == r \in Exprs(Depth) /\ s \in Strings
Next == UNCHANGED <<r, s>>
Spec == Init /\ [][Next]_<<r, s>>

Vector == PrintT(<<"VEC", ToJson([p |-> Show(r), s |-> Str(s), m |-> WholeMatch(r, s),
                                  search |-> SearchMatch(r, s)])>>)
(* anchoring is strictly stronger than searching *)
AnchoredImpliesSearch == WholeMatch(r, s) => SearchMatch(r, s)
(* sensitivity: claiming search = whole match must fail *)
SearchIsWhole == SearchMatch(r, s) = WholeMatch(r, s)
=============================================================================
