-------------------------------- MODULE Deps --------------------------------
(***************************************************************************)
(* C17: reported dependencies are exactly the files that were read.        *)
(*                                                                         *)
(* Environment side (what clang does): the preprocessor as an include-stack*)
(* machine over files that live in directories and carry a guard kind and  *)
(* a list of inclusion directives (name, quoted/angle form, in an active   *)
(* region or inside a false #if).  It produces `read`.                     *)
(* bindgen's side (ir/context.rs BindgenContext::new seeds `deps` with the *)
(* input headers; ir/item.rs CXCursor_InclusionDirective arm calls          *)
(* include_file + add_dep with the *resolved* file of every inclusion       *)
(* directive libclang reports, i.e. every directive in an active region,    *)
(* whether or not the file is entered again): `reported`, and the cargo     *)
(* lines (one header_file per input, one include_file per directive seen).  *)
(*                                                                         *)
(* The content of a file is chosen when the file is entered for the first   *)
(* time, so every behaviour is one include DAG together with its run; only  *)
(* reachable files get a content (canonical form).  Files are numbered so   *)
(* that an active directive always resolves to a higher number (acyclic).   *)
(***************************************************************************)
EXTENDS DepsRules

CONSTANTS N,            \* files 0..N-1
          SearchPath,   \* sequence of directories on the search path (-I.., -isystem..)
          Names,        \* names a directive may mention
          Forms,        \* subset of {"q", "a"}
          Guards,       \* subset of {"none", "guard", "once"}
          Actives,      \* subset of BOOLEAN
          DeadNames,    \* names a directive inside a false #if may mention
          MaxFan,       \* directives per file
          Layouts,      \* set of [dir: Files -> directory, name: Files -> name]
          RootChoices,  \* set of sequences of input headers (the last one is the main file)
          ArgIncludes,  \* set of sequences of files named by `-include` among the *clang arguments*
                        \* (read by the preprocessor before everything else; not input headers)
          Variant       \* "code" | "allDirectives" | "mainOnly" | "noInputs"

Files == 0..(N - 1)
NoFile == N
Unset == [guard |-> "unset", dirs |-> <<>>, open |-> FALSE]

VARIABLES L, roots, pre, pending, content, stack, read, reported, lines, macros, onced
vars == <<L, roots, pre, pending, content, stack, read, reported, lines, macros, onced>>

-----------------------------------------------------------------------------
(* header search (pure operators in DepsRules.tla, shared with Trace_Deps.tla)        *)
Resolve(f, d) == ResolveIn(L, SearchPath, Files, NoFile, f, d)

FirstForm == IF "q" \in Forms THEN "q" ELSE "a"
DirectiveChoices(f) ==
  {d \in [name : Names, form : Forms, active : Actives] :
     IF d.active THEN Resolve(f, d) # NoFile /\ Resolve(f, d) > f
     ELSE d.form = FirstForm /\ d.name \in DeadNames}   \* the form of a dead directive is irrelevant
(* the guard kind is chosen when a file is entered for the first time; its directives are    *)
(* chosen one by one while the preprocessor walks through it (the file stays `open` until    *)
(* its end is reached for the first time)                                                    *)
FreshContent(f) == {[guard |-> g, dirs |-> <<>>, open |-> TRUE] : g \in (IF f = 0 THEN {"none"} ELSE Guards)}

-----------------------------------------------------------------------------
Count(s, x) == Cardinality({i \in DOMAIN s : s[i] = x})

Init ==
  /\ L \in Layouts /\ roots \in RootChoices /\ pre \in ArgIncludes
  /\ pending = pre \o roots /\ content = [f \in Files |-> Unset]
  /\ stack = <<>> /\ read = {} /\ macros = {} /\ onced = {}
  /\ reported = IF Variant = "noInputs" THEN {} ELSE Range(roots)     \* BindgenContext::new
  /\ lines = [f \in Files |-> Count(roots, f)]                       \* header_file callbacks

(* the preprocessor opens file f; st is the stack to continue with, base the contents so far *)
EnterWith(base, f, c, st) ==
  /\ read' = read \cup {f}
  /\ content' = [base EXCEPT ![f] = c]
  /\ IF (c.guard = "once" /\ f \in onced) \/ (c.guard = "guard" /\ f \in macros)
     THEN stack' = st /\ UNCHANGED <<macros, onced>>      \* body skipped
     ELSE /\ stack' = Append(st, [file |-> f, pc |-> 1])
          /\ onced' = IF c.guard = "once" THEN onced \cup {f} ELSE onced
          /\ macros' = IF c.guard = "guard" THEN macros \cup {f} ELSE macros
Enter(base, f, st) == IF base[f] = Unset THEN \E c \in FreshContent(f) : EnterWith(base, f, c, st)
                      ELSE EnterWith(base, f, base[f], st)

NextRoot ==
  /\ stack = <<>> /\ pending # <<>>
  /\ pending' = Tail(pending)
  /\ Enter(content, Head(pending), <<>>)
  /\ UNCHANGED <<L, roots, pre, reported, lines>>

(* bindgen sees an InclusionDirective cursor whose included file is t       *)
Seen(t) ==
  IF Variant = "mainOnly" /\ Len(stack) > 1 THEN UNCHANGED <<reported, lines>>
  ELSE /\ reported' = reported \cup {t}
       /\ lines' = [lines EXCEPT ![t] = @ + 1]

Step ==
  /\ stack # <<>>
  /\ LET top == stack[Len(stack)]
         f == top.file
         ds == content[f].dirs
         rest == SubSeq(stack, 1, Len(stack) - 1)
         atEnd == top.pc > Len(ds)
     IN \/ /\ atEnd                                                    \* Leave
           /\ stack' = rest
           /\ content' = [content EXCEPT ![f].open = FALSE]
           /\ UNCHANGED <<read, reported, lines, macros, onced>>
        \/ \E d \in (IF ~atEnd THEN {ds[top.pc]}
                      ELSE IF content[f].open /\ Len(ds) < MaxFan THEN DirectiveChoices(f) ELSE {}) :
             LET base == IF atEnd THEN [content EXCEPT ![f].dirs = Append(@, d)] ELSE content
                 st == Append(rest, [top EXCEPT !.pc = @ + 1])
                 t == Resolve(f, d)
             IN IF d.active
                THEN Seen(t) /\ Enter(base, t, st)
                ELSE /\ stack' = st /\ content' = base /\ UNCHANGED <<read, macros, onced>>
                     /\ IF Variant = "allDirectives" /\ t # NoFile THEN Seen(t)
                        ELSE UNCHANGED <<reported, lines>>
  /\ UNCHANGED <<L, roots, pre, pending>>

Next == NextRoot \/ Step
Spec == Init /\ [][Next]_vars

Done == stack = <<>> /\ pending = <<>>

-----------------------------------------------------------------------------
(* L1: every input header and every file included, directly or transitively, *)
(* in an active region                                                        *)
Influencing == InfluencingIn(L, SearchPath, Files, NoFile, content, Range(roots) \cup Range(pre), N)

TypeOK == /\ read \subseteq Files /\ reported \subseteq Files
          /\ \A i \in DOMAIN stack : stack[i].file \in read
ReadIsInfluencing == Done => read = Influencing       \* the stack machine computes the L1 set
Exact == Done => reported = read                     \* the property
Complete == Done => read \subseteq reported
NothingExtra == reported \subseteq read \cup Range(pending)   \* at every step, not only at the end
LinesCover == Done => {f \in Files : lines[f] > 0} = reported
(* one line per *directive occurrence* is what the callbacks do; exactly one line per file  *)
(* does not hold under repeated inclusion (documented expected failure, see MC_Deps)        *)
OneLineEach == Done => \A f \in reported : lines[f] = 1
=============================================================================
