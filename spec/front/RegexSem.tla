------------------------------ MODULE RegexSem ------------------------------
(* Semantics of small regular-expression ASTs over sequences of characters:  *)
(* whole-string matching (what an anchored pattern means) and searching.      *)
EXTENDS Naturals, Sequences, FiniteSets, TLC

Lit(c) == [op |-> "lit", c |-> c]
AnyC == [op |-> "any"]
Star(r) == [op |-> "star", r |-> r]
Cat(a, b) == [op |-> "cat", a |-> a, b |-> b]
Alt(a, b) == [op |-> "alt", a |-> a, b |-> b]

(* positions j such that r matches s[i..j-1] *)
RECURSIVE Ends(_, _, _)
Ends(r, s, i) ==
  CASE r.op = "lit" -> IF i <= Len(s) /\ s[i] = r.c THEN {i + 1} ELSE {}
    [] r.op = "any" -> IF i <= Len(s) THEN {i + 1} ELSE {}
    [] r.op = "cat" -> UNION {Ends(r.b, s, j) : j \in Ends(r.a, s, i)}
    [] r.op = "alt" -> Ends(r.a, s, i) \cup Ends(r.b, s, i)
    [] r.op = "star" ->
         LET RECURSIVE Grow(_)
             Grow(S) == LET T == S \cup UNION {Ends(r.r, s, j) : j \in S}
                        IN IF T = S THEN S ELSE Grow(T)
         IN Grow({i})

WholeMatch(r, s) == (Len(s) + 1) \in Ends(r, s, 1)
(* what an unanchored search would accept (the mistake the anchoring prevents) *)
SearchMatch(r, s) == \E i \in 1..(Len(s) + 1) : Ends(r, s, i) # {}
SetMatches(ps, s) == \E k \in DOMAIN ps : WholeMatch(ps[k], s)

(* concrete syntax, fully parenthesised so that precedence cannot differ    *)
RECURSIVE Show(_)
Show(r) ==
  CASE r.op = "lit" -> r.c
    [] r.op = "any" -> "."
    [] r.op = "cat" -> Show(r.a) \o Show(r.b)
    [] r.op = "alt" -> "(" \o Show(r.a) \o "|" \o Show(r.b) \o ")"
    [] r.op = "star" -> "(" \o Show(r.r) \o ")*"

=============================================================================
