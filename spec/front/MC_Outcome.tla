------------------------------ MODULE MC_Outcome ------------------------------
(* Bounded checks and behaviour generator for Outcome.tla.                   *)
EXTENDS Outcome, Json

(* one record per fact vector with the predicted result (Gen_Outcome.cfg)     *)
Emitted == Done => PrintT(<<"VEC", ToJson([facts |-> facts, outcome |-> result, allowed |-> Allowed(facts)])>>)
=============================================================================
