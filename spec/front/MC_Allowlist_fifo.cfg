SPECIFICATION Spec
CONSTANTS
  N = 3
  Kinds = {"Generic"}
  Discipline = "fifo"
  SkipBlockedTraversal = FALSE
INVARIANTS ResultIsReach NeverBlocked SeenInvariant CodegenInAllow
CHECK_DEADLOCK FALSE
