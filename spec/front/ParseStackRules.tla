--------------------------- MODULE ParseStackRules ---------------------------
(***************************************************************************)
(* The stack discipline of `currently_parsed_types`, as predicates on a    *)
(* sequence of item identities, shared by the machine (ParseStack.tla) and *)
(* the trace specification (Trace_ParseStack.tla).                         *)
(***************************************************************************)
EXTENDS Naturals, Sequences, FiniteSets

OnStackOf(s) == {s[i] : i \in DOMAIN s}
NoRepeat(s) == \A i, j \in DOMAIN s : i # j => s[i] # s[j]       \* no item twice on the stack
CanPush(s, d) == d \notin OnStackOf(s)                            \* the guard of from_ty_with_id
PopsLast(s, d) == s # <<>> /\ s[Len(s)] = d                       \* popped = last pushed
BoundedBy(s, items) == Len(s) <= Cardinality(items)               \* depth <= number of items
=============================================================================
