SPECIFICATION Spec
CONSTANTS
    Ideal = FALSE
    Mode = "single"
    MaxLen = 1
    Mutation = "none"
INVARIANTS Emit
CHECK_DEADLOCK FALSE
