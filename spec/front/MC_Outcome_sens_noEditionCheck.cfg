SPECIFICATION Spec
CONSTANTS
  Variant = "noEditionCheck"
INVARIANTS AllowedResult
CHECK_DEADLOCK FALSE
