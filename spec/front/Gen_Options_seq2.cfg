SPECIFICATION Spec
CONSTANTS
    Ideal = FALSE
    Mode = "seq"
    MaxLen = 2
    Mutation = "none"
INVARIANTS Emit
CHECK_DEADLOCK FALSE
