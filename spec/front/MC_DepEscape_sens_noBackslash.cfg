SPECIFICATION Spec
CONSTANTS
  Alphabet <- Alpha3
  Reader = "ref"
  EscVariant = "noBackslash"
INVARIANTS RoundTripOK
CHECK_DEADLOCK FALSE
