SPECIFICATION Spec
CONSTANTS
  N = 2
  Kinds = {"Field", "Generic", "Method"}
  Discipline = "lifo"
  SkipBlockedTraversal = TRUE
INVARIANTS ResultIsReach NeverBlocked SeenInvariant CodegenInAllow
CHECK_DEADLOCK FALSE
