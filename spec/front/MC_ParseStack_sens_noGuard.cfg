SPECIFICATION Spec
CONSTANTS
  N = 2
  MaxRefs = 1
  Guard = FALSE
INVARIANTS NoDeclTwice Bounded
CHECK_DEADLOCK FALSE
