--------------------------- MODULE Trace_Allowlist ---------------------------
(* Trace validation of allowlisting: for every `ir` event (frozen IR graph, *)
(* roots, allowlisted and codegen sets recorded by the real code) the sets  *)
(* must be the ones Allowlist.tla defines on that graph.                    *)
EXTENDS Allowlist, Json, IOUtils

Rec == ndJsonDeserialize(IOEnv.TRACE)

VARIABLES l, case, viol, nir
vars == <<l, case, viol, nir>>

Init == l = 1 /\ case = "" /\ viol = <<>> /\ nir = 0
Ev == Rec[l]
Cap(s, x) == IF Len(s) < 100 THEN Append(s, x) ELSE s

Pick(S) == IF S = {} THEN "" ELSE CHOOSE x \in S : TRUE

CheckIR(e) ==
  LET G == [nodes |-> e.nodes, opt |-> e.opt]
      roots == Range(e.roots)
      allow == Range(e.allowlisted)
      cg == Range(e.codegen_items)
      expA == ExpectedAllow(G, roots)
      expC == ExpectedCodegen(G, roots)
      enabledItems == {n \in DOMAIN e.nodes : e.nodes[n].enabled}
      v1 == IF allow # expA
            THEN <<[kind |-> "allowlisted-not-reachability", case |-> case,
                    missing |-> Pick(expA \ allow), extra |-> Pick(allow \ expA)]>> ELSE <<>>
      v2 == IF cg # expC
            THEN <<[kind |-> "codegen-items-not-reachability", case |-> case,
                    missing |-> Pick(expC \ cg), extra |-> Pick(cg \ expC)]>> ELSE <<>>
      v3 == IF ~(cg \subseteq allow)
            THEN <<[kind |-> "codegen-not-subset-of-allowlisted", case |-> case,
                    missing |-> "", extra |-> Pick(cg \ allow)]>> ELSE <<>>
      v4 == IF ~(roots \subseteq enabledItems)
            THEN <<[kind |-> "root-not-enabled-for-codegen", case |-> case,
                    missing |-> "", extra |-> Pick(roots \ enabledItems)]>> ELSE <<>>
      v5 == IF e.opt.no_allowlist /\ roots # enabledItems
            THEN <<[kind |-> "no-allowlist-roots-not-everything", case |-> case,
                    missing |-> Pick(enabledItems \ roots), extra |-> Pick(roots \ enabledItems)]>> ELSE <<>>
      v6 == IF \E n \in allow \cup cg : e.nodes[n].blocklisted
            THEN <<[kind |-> "blocklisted-item-emitted", case |-> case, missing |-> "",
                    extra |-> Pick({n \in allow \cup cg : e.nodes[n].blocklisted})]>> ELSE <<>>
  IN v1 \o v2 \o v3 \o v4 \o v5 \o v6

Next ==
  /\ l <= Len(Rec)
  /\ l' = l + 1
  /\ IF Ev.ev = "reset" THEN case' = Ev.case /\ UNCHANGED <<viol, nir>>
     ELSE IF Ev.ev = "ir" THEN
          /\ nir' = nir + 1
          /\ LET vs == CheckIR(Ev) IN viol' = IF Len(viol) < 100 THEN viol \o vs ELSE viol
          /\ UNCHANGED case
     ELSE UNCHANGED <<case, viol, nir>>

Spec == Init /\ [][Next]_vars

Accepted ==
  LET d == TLCGet("stats").diameter IN
  IF d - 1 = Len(Rec) THEN TRUE
  ELSE PrintT(<<"REJECTED", ToJson([at |-> d])>>) /\ FALSE
Report == (l = Len(Rec) + 1) =>
  /\ PrintT(<<"VIOL", ToJson(viol)>>)
  /\ PrintT(<<"COUNTS", ToJson([graphs |-> nir, events |-> Len(Rec)])>>)
=============================================================================
