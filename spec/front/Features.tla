------------------------------ MODULE Features ------------------------------
(***************************************************************************)
(* C14 - bindings use only features of the selected Rust target,           *)
(* monotonically.                                                          *)
(*                                                                         *)
(* L1 (reference, trusted input): when each gated construct became stable  *)
(*    in the Rust release history, and which editions exist since when.    *)
(* L2 (implementation shaped): what bindgen/features.rs                    *)
(*    (define_rust_targets!, RustFeatures::new, RustTarget::is_compatible, *)
(*    RustEdition::is_available, latest_edition, FromStr for RustTarget),  *)
(*    Builder::generate (edition check, feature synchronisation) and the   *)
(*    codegen sites that consult the flags do.                             *)
(* L3: the laws that relate them (invariants below).                       *)
(*                                                                         *)
(* One behaviour = one command line: a version string form x minor number  *)
(* x an optional --rust-edition; the machine walks parse -> edition check  *)
(* -> features -> codegen and stops.  Gen_Features.cfg prints one record   *)
(* per behaviour (prediction) that lib/checks/c14.py replays on the real   *)
(* CLI.  A version is a natural number (the minor) or Nightly.             *)
(***************************************************************************)
EXTENDS Naturals, Sequences, FiniteSets, TLC, Json

Nightly == 1000                     \* larger than every minor
None == 0                           \* "no --rust-edition given"
Editions == {2018, 2021, 2024}
Range(s) == {s[i] : i \in DOMAIN s}
Max(S) == CHOOSE x \in S : \A y \in S : y <= x
Min(S) == CHOOSE x \in S : \A y \in S : x <= y

CONSTANTS
    MaxMinor,       \* minors 0..MaxMinor are explored
    TargetRows,     \* L2: the stable rows of define_rust_targets!
    NightlyRow,     \* L2: the Nightly row
    EditionRows,    \* L2: define_rust_editions!, in declaration order (= RustEdition::ALL)
    Compat(_, _),   \* L2: RustTarget::is_compatible
    LatestEdition(_), \* L2: RustTarget::latest_edition
    Forms,          \* version string forms explored
    NightlyZero     \* L2: what FromStr does for "1.0-nightly": "reject" (checked_sub) | "panic" (minor -= 1)

(***************************************************************************)
(* L1: Rust release history (trusted).  Constructs are what can be seen in *)
(* the generated text.                                                     *)
(***************************************************************************)
Constructs == {"unsafe_extern", "offset_of", "cstr_literal", "const_cstr", "core_ffi_c",
               "core_ffi_cstr", "abi:C-unwind", "abi:efiapi", "abi:thiscall", "abi:vectorcall",
               "ptr_metadata", "layout_for_ptr"}

Stabilised(c) ==
    CASE c = "unsafe_extern"  -> 82     \* unsafe extern blocks               1.82
      [] c = "offset_of"      -> 77     \* core::mem::offset_of!              1.77
      [] c = "cstr_literal"   -> 77     \* c"..." literals                    1.77 (edition >= 2021)
      [] c = "core_ffi_c"     -> 64     \* core::ffi::c_int ...               1.64
      [] c = "core_ffi_cstr"  -> 64     \* core::ffi::CStr                    1.64
      [] c = "const_cstr"     -> 59     \* const CStr::from_bytes_with_nul_unchecked 1.59
      [] c = "abi:C-unwind"   -> 71
      [] c = "abi:efiapi"     -> 68
      [] c = "abi:thiscall"   -> 73
      [] c = "abi:vectorcall" -> Nightly
      [] c = "ptr_metadata"   -> Nightly
      [] c = "layout_for_ptr" -> Nightly

MinEdition(c) == IF c = "cstr_literal" THEN 2021 ELSE 2018
EditionSince(e) == CASE e = 2018 -> 31 [] e = 2021 -> 56 [] e = 2024 -> 85

(* may construct c appear in bindings for version v and edition e? *)
Allowed(c, v, e) == Stabilised(c) <= v /\ MinEdition(c) <= e
EditionExists(e, v) == EditionSince(e) <= v
NewestEdition(v) == Max({e \in Editions : EditionExists(e, v)})

(***************************************************************************)
(* L2: transcription of bindgen/features.rs.                               *)
(***************************************************************************)
F(f, eds) == [f |-> f, eds |-> eds]
Code_NightlyRow == << F("vectorcall_abi", {}), F("ptr_metadata", {}), F("layout_for_ptr", {}) >>
Code_TargetRows == <<
    [minor |-> 82, feats |-> << F("unsafe_extern_blocks", {}) >>],
    [minor |-> 77, feats |-> << F("offset_of", {}), F("literal_cstr", {2021, 2024}) >>],
    [minor |-> 73, feats |-> << F("thiscall_abi", {}) >>],
    [minor |-> 71, feats |-> << F("c_unwind_abi", {}) >>],
    [minor |-> 68, feats |-> << F("abi_efiapi", {}) >>],
    [minor |-> 64, feats |-> << F("core_ffi_c", {}) >>],
    [minor |-> 59, feats |-> << F("const_cstr", {}) >>],
    [minor |-> 51, feats |-> << >>] >>
Code_EditionRows == << [e |-> 2018, minor |-> 31], [e |-> 2021, minor |-> 56], [e |-> 2024, minor |-> 85] >>

(* is_compatible: (Stable a, Stable b) -> a >= b; (Nightly, _) -> true; (Stable, Nightly) -> false *)
Code_Compat(t, o) == CASE t # Nightly /\ o # Nightly -> t >= o
                       [] t = Nightly -> TRUE
                       [] OTHER -> FALSE

EditionMinor(e) == (CHOOSE r \in Range(EditionRows) : r.e = e).minor
(* RustEdition::is_available: nightly -> true, else $minor <= minor *)
IsAvailable(e, t) == IF t = Nightly THEN TRUE ELSE EditionMinor(e) <= t
(* latest_edition: ALL.iter().rev().find(is_available).expect(..) *)
AvailIdx(t) == {i \in DOMAIN EditionRows : IsAvailable(EditionRows[i].e, t)}
Code_LatestEdition(t) == IF AvailIdx(t) = {} THEN None  \* would be the expect() panic
                         ELSE EditionRows[Max(AvailIdx(t))].e

Earliest == Min({r.minor : r \in Range(TargetRows)})    \* EARLIEST_STABLE_RUST
Latest == Max({r.minor : r \in Range(TargetRows)})      \* LATEST_STABLE_RUST = RustTarget::default() (CLI)

(* RustFeatures::new(target, edition) *)
RowFeats(row, e) == {x.f : x \in {y \in Range(row) : y.eds = {} \/ e \in y.eds}}
FeatNew(t, e) ==
    (IF Compat(t, Nightly) THEN RowFeats(NightlyRow, e) ELSE {})
    \cup UNION {IF Compat(t, r.minor) THEN RowFeats(r.feats, e) ELSE {} : r \in Range(TargetRows)}

(* Builder::generate: the edition check and the synchronisation of rust_features *)
Generate(t, eopt) ==
    IF eopt # None
    THEN IF ~IsAvailable(eopt, t) THEN [out |-> "unsupported_edition", feats |-> {}, edition |-> eopt]
         ELSE [out |-> "ok", feats |-> FeatNew(t, eopt), edition |-> eopt]
    ELSE [out |-> "ok", feats |-> FeatNew(t, LatestEdition(t)), edition |-> LatestEdition(t)]

(* FromStr for RustTarget.  inp = [form, n]; n is the minor written in the string.        *)
(* "-nightly" forms are "the previous, maximally patched stable": minor - 1; there is    *)
(* none before 1.0 (an error value; the unchecked `minor -= 1` on u64 is the mutant).    *)
NightlyForms == {"1.N-nightly", "1.N.P-nightly"}
AllForms == {"1.N", "1.N.0", "1.N.P", "1.N-beta", "1.N.0-beta.2", "nightly"} \cup NightlyForms
AllFormsD == AllForms \cup {"default"}
Stable(m) == IF m < Earliest THEN [out |-> "too_early", t |-> 0] ELSE [out |-> "ok", t |-> m]
Parse(form, n) ==
    CASE form = "nightly" -> [out |-> "ok", t |-> Nightly]
      [] form \in NightlyForms -> IF n = 0 THEN [out |-> (IF NightlyZero = "panic" THEN "panic" ELSE "rejected"), t |-> 0]
                                  ELSE Stable(n - 1)      \* minor.checked_sub(1), else an error value
      [] OTHER -> Stable(n)

(* the version the user asked for (L1 reading of the string).  A toolchain that calls     *)
(* itself 1.N.0-nightly exists before 1.N is released: what is "stable since 1.N" is       *)
(* stabilised at some point of that window, so the features every 1.N-nightly toolchain    *)
(* is guaranteed to have are those of 1.(N-1) - that is the version such a string means.   *)
Meant(form, n) == IF form = "nightly" THEN Nightly
                  ELSE IF form \in NightlyForms /\ n > 0 THEN n - 1 ELSE n

(* codegen sites: which constructs appear for a flag set, on the trigger header set with   *)
(* --generate-cstr --use-core --flexarray-dst, layout tests on, ABI overrides               *)
Emitted(fs) ==
    {c \in Constructs :
        CASE c = "unsafe_extern"  -> "unsafe_extern_blocks" \in fs        \* codegen/mod.rs Var, Function
          [] c = "offset_of"      -> "offset_of" \in fs                   \* CompInfo layout tests
          [] c = "cstr_literal"   -> "const_cstr" \in fs /\ "literal_cstr" \in fs
          [] c = "const_cstr"     -> "const_cstr" \in fs /\ "literal_cstr" \notin fs
          [] c = "core_ffi_cstr"  -> "const_cstr" \in fs                  \* ::#prefix::ffi::CStr, prefix = core
          [] c = "core_ffi_c"     -> "core_ffi_c" \in fs                  \* helpers::ast_ty::raw_type
          [] c = "abi:C-unwind"   -> "c_unwind_abi" \in fs                \* FunctionSig::abi
          [] c = "abi:efiapi"     -> "abi_efiapi" \in fs
          [] c = "abi:thiscall"   -> "thiscall_abi" \in fs
          [] c = "abi:vectorcall" -> "vectorcall_abi" \in fs
          [] c = "ptr_metadata"   -> "ptr_metadata" \in fs
          [] c = "layout_for_ptr" -> "layout_for_ptr" \in fs}

(* ABI sites.  An ABI string reaches the output at six kinds of places; in the code all of  *)
(* them ask FunctionSig::abi (ir/function.rs), which first picks the ABI - the attribute    *)
(* clang reports, or an --override-abi whose regex matches the function's name or, for a   *)
(* function POINTER type, the name of the typedef / field / parameter it belongs to - and  *)
(* only then applies the feature gate; a refused ABI turns the item into nothing           *)
(* (function) or an opaque blob (pointer).  UngatedSites = {} is the code; a non-empty set  *)
(* is the mutant in which that site returns before the gate (sens config).                 *)
Abis == {"C-unwind", "efiapi", "thiscall", "vectorcall"}
AbiFlag(a) == CASE a = "C-unwind" -> "c_unwind_abi" [] a = "efiapi" -> "abi_efiapi"
                [] a = "thiscall" -> "thiscall_abi" [] a = "vectorcall" -> "vectorcall_abi"
AbiSites == {"fn:attribute", "fn:override", "fnptr:attribute",
             "fnptr-typedef:override", "fnptr-field:override", "fnptr-param:override"}
UngatedSites == {}
Ungated_fnptrOverride == {"fnptr-typedef:override", "fnptr-field:override", "fnptr-param:override"}
SiteEmits(site, a, fs) == site \in UngatedSites \/ AbiFlag(a) \in fs

(* the L1 entry each flag stands for *)
FlagConstruct(f) ==
    CASE f = "unsafe_extern_blocks" -> "unsafe_extern" [] f = "offset_of" -> "offset_of"
      [] f = "literal_cstr" -> "cstr_literal" [] f = "const_cstr" -> "const_cstr"
      [] f = "core_ffi_c" -> "core_ffi_c" [] f = "c_unwind_abi" -> "abi:C-unwind"
      [] f = "abi_efiapi" -> "abi:efiapi" [] f = "thiscall_abi" -> "abi:thiscall"
      [] f = "vectorcall_abi" -> "abi:vectorcall" [] f = "ptr_metadata" -> "ptr_metadata"
      [] f = "layout_for_ptr" -> "layout_for_ptr"

(***************************************************************************)
(* The machine: one behaviour per command line.                            *)
(***************************************************************************)
VARIABLES pc, inp, tgt, gen
vars == <<pc, inp, tgt, gen>>

Versions == (0..MaxMinor) \cup {Nightly}
Inputs == {[form |-> f, n |-> n, eopt |-> e] : f \in Forms \ {"nightly", "default"}, n \in 0..MaxMinor, e \in Editions \cup {None}}
          \cup {[form |-> "nightly", n |-> 0, eopt |-> e] : e \in (IF "nightly" \in Forms THEN Editions \cup {None} ELSE {})}
          \cup {[form |-> "default", n |-> 0, eopt |-> e] : e \in (IF "default" \in Forms THEN Editions \cup {None} ELSE {})}

NoGen == [out |-> "none", feats |-> {}, edition |-> None]
Init == pc = "parse" /\ inp \in Inputs /\ tgt = [out |-> "none", t |-> 0] /\ gen = NoGen

DoParse == /\ pc = "parse"
           /\ tgt' = IF inp.form = "default" THEN [out |-> "ok", t |-> Latest] ELSE Parse(inp.form, inp.n)
           /\ pc' = IF tgt'.out = "ok" THEN "generate" ELSE "done"
           /\ UNCHANGED <<inp, gen>>
DoGenerate == /\ pc = "generate"
              /\ gen' = Generate(tgt.t, inp.eopt)
              /\ pc' = "done"
              /\ UNCHANGED <<inp, tgt>>
Next == DoParse \/ DoGenerate
Spec == Init /\ [][Next]_vars

Done == pc = "done"
Accepted == Done /\ tgt.out = "ok" /\ gen.out = "ok"
MeantV == IF inp.form = "default" THEN Latest ELSE Meant(inp.form, inp.n)

TypeOK == /\ pc \in {"parse", "generate", "done"}
          /\ tgt.out \in {"none", "ok", "too_early", "rejected", "panic"}
          /\ gen.out \in {"none", "ok", "unsupported_edition"}

(***************************************************************************)
(* L3: laws.  The first group must hold of the specification itself        *)
(* (MC_Features.cfg); a failure there is a model error.                    *)
(***************************************************************************)
(* no flag is on before its construct is stable / outside its editions *)
FlagSound == Accepted => \A f \in gen.feats : Allowed(FlagConstruct(f), tgt.t, gen.edition)
(* the flag set only grows with the version (same edition request) *)
FlagMonotone == Accepted /\ tgt.t # Nightly =>
    LET t2 == IF tgt.t = MaxMinor THEN Nightly ELSE tgt.t + 1
        g2 == Generate(t2, inp.eopt)
    IN g2.out = "ok" /\ gen.feats \subseteq g2.feats
(* an edition is rejected exactly when the target does not have it *)
EditionRule == Done /\ tgt.out = "ok" /\ inp.eopt # None =>
    ((gen.out = "unsupported_edition") <=> (tgt.t # Nightly /\ ~EditionExists(inp.eopt, tgt.t)))
(* without --rust-edition the newest edition of the target is assumed *)
LatestEditionRule == Accepted /\ inp.eopt = None =>
    gen.edition = (IF tgt.t = Nightly THEN Max(Editions) ELSE NewestEdition(tgt.t))
(* no target given => newest known stable release *)
DefaultRule == Done /\ inp.form = "default" =>
    tgt = [out |-> "ok", t |-> Max({r.minor : r \in Range(TargetRows)})]
(* all spellings of the same release select the same target; nightly spellings the previous one *)
ParseRule == Done /\ tgt.out = "ok" /\ inp.form \notin {"default", "nightly"} =>
    tgt.t = (IF inp.form \in NightlyForms THEN inp.n - 1 ELSE inp.n)
(* the construct monotonicity the property states, on the derived observation
   cstr_const = const_cstr \/ cstr_literal (the literal replaces the call) *)
Obs(fs) == (Emitted(fs) \ {"const_cstr", "cstr_literal"})
           \cup (IF {"const_cstr", "cstr_literal"} \cap Emitted(fs) # {} THEN {"cstr_const"} ELSE {})
ConstructMonotone == Accepted /\ tgt.t # Nightly =>
    LET t2 == IF tgt.t = MaxMinor THEN Nightly ELSE tgt.t + 1
    IN Obs(gen.feats) \subseteq Obs(Generate(t2, inp.eopt).feats)

(***************************************************************************)
(* Strict law: the property itself at the level of emitted constructs.     *)
(* (ParseTotal - no version string panics - is a law that must hold.)      *)
(* A counterexample is a *prediction* about the real code;                 *)
(* c14.py replays it on the real CLI before anything is concluded.         *)
(***************************************************************************)
Newer == IF Accepted THEN {c \in Emitted(gen.feats) : ~Allowed(c, MeantV, gen.edition)} ELSE {}
ConstructSound == Newer = {}
(* every ABI site is behind the gate of its ABI (must hold of the code's L2: MC_Features.cfg) *)
SiteSound == Accepted => \A site \in AbiSites, a \in Abis :
                SiteEmits(site, a, gen.feats) => Allowed("abi:" \o a, MeantV, gen.edition)
ParseTotal == tgt.out # "panic"

(***************************************************************************)
(* Behaviour generator.                                                    *)
(***************************************************************************)
(* L1 alone: what may appear for the version the user meant (independent of what L2 decided) *)
EditionL1 == IF inp.eopt # None THEN inp.eopt
             ELSE IF MeantV = Nightly THEN Max(Editions)
             ELSE IF MeantV >= EditionSince(2018) THEN NewestEdition(MeantV) ELSE 2018
AllowedL1 == {c \in Constructs : Allowed(c, MeantV, EditionL1)}
MustRejectL1 == inp.eopt # None /\ MeantV # Nightly /\ ~EditionExists(inp.eopt, MeantV)
Record == [form |-> inp.form, n |-> inp.n, eopt |-> inp.eopt,
           parse |-> tgt.out, target |-> tgt.t, meant |-> MeantV,
           gen |-> gen.out, edition |-> gen.edition,
           flags |-> gen.feats,
           predicted |-> IF Accepted THEN Emitted(gen.feats) ELSE {},
           allowed |-> AllowedL1,
           must_reject |-> MustRejectL1, edition_l1 |-> EditionL1,
           newer |-> Newer]
Emit == Done => PrintT(<<"CFG", ToJson(Record)>>)
(* the transcribed tables, printed once, cross-checked against a scan of features.rs *)
Tables == [targets |-> TargetRows, nightly |-> NightlyRow, editions |-> EditionRows,
           earliest |-> Earliest, latest |-> Latest]
EmitTables == (pc = "parse" /\ inp = [form |-> "default", n |-> 0, eopt |-> None]) =>
              PrintT(<<"TABLES", ToJson(Tables)>>)

(***************************************************************************)
(* Sensitivity variants (each must make one law fail).                     *)
(***************************************************************************)
Rows_offsetTooEarly == [Code_TargetRows EXCEPT ![2] =
    [minor |-> 76, feats |-> << F("offset_of", {}), F("literal_cstr", {2021, 2024}) >>]]
Rows_cstrNoEdition == [Code_TargetRows EXCEPT ![2] =
    [minor |-> 77, feats |-> << F("offset_of", {}), F("literal_cstr", {}) >>]]
Nightly_vectorcallStable == << F("ptr_metadata", {}), F("layout_for_ptr", {}) >>
Rows_vectorcallStable == [Code_TargetRows EXCEPT ![1] =
    [minor |-> 82, feats |-> << F("unsafe_extern_blocks", {}), F("vectorcall_abi", {}) >>]]
Ed_2024At84 == [Code_EditionRows EXCEPT ![3] = [e |-> 2024, minor |-> 84]]
Compat_exact(t, o) == t = o
LatestEdition_first(t) == IF AvailIdx(t) = {} THEN None ELSE EditionRows[Min(AvailIdx(t))].e
=============================================================================
