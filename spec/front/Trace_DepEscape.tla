--------------------------- MODULE Trace_DepEscape ---------------------------
(***************************************************************************)
(* Trace validation (impl -> spec) of the dep-file writer for C17.         *)
(* Input: NDJSON, one line per dep-file written by the real bindgen:       *)
(*   {"case", "line": [chars], "target": [chars], "deps": [[chars], ...]}  *)
(* where target / deps are what the check's reader extracted.  Accepted    *)
(* iff the spec's writer produces exactly the observed line from those     *)
(* names (the real `escape` is the spec's Escape, names in the observed    *)
(* order) and the spec's reference reader parses the observed line back to *)
(* the same names (so the check's reader is the spec's reader).            *)
(***************************************************************************)
EXTENDS DepEscape, Json, IOUtils, TLC

Rec == ndJsonDeserialize(IOEnv.TRACE)

VARIABLES l, bad
tvars == <<l, bad>>
TInit == l = 1 /\ bad = <<>>

Consume ==
  /\ l <= Len(Rec)
  /\ LET e == Rec[l]
         ok == /\ DepLine(e.target, e.deps) = e.line
               /\ ReadLine(e.line) = [target |-> e.target, deps |-> e.deps]
     IN bad' = IF ok \/ Len(bad) >= 50 THEN bad ELSE Append(bad, e.case)
  /\ l' = l + 1
TSpec == TInit /\ [][Consume]_tvars

Accepted ==
  LET d == TLCGet("stats").diameter IN
  IF d - 1 = Len(Rec) THEN TRUE
  ELSE /\ PrintT(<<"REJECTED", ToJson([at |-> d])>>) /\ FALSE
TDone == l = Len(Rec) + 1
Report == TDone => PrintT(<<"BAD", ToJson(bad)>>) /\ PrintT(<<"COUNT", ToJson([n |-> Len(Rec)])>>)
=============================================================================
