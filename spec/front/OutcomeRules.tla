----------------------------- MODULE OutcomeRules -----------------------------
(***************************************************************************)
(* C12: generation always ends with bindings or an error value.            *)
(*                                                                         *)
(* Facts about one invocation (what the environment is like):              *)
(*   flags   "ok" | "invalid" | "nightly0"  the option set parses / is     *)
(*           rejected by the flag parser / names the target "1.0-nightly"  *)
(*   edition "none" | "available" | "unavailable"   --rust-edition vs      *)
(*           --rust-target (RustEdition::is_available)                     *)
(*   path    "ok" | "missing" | "dir" | "unreadable" | "denied"  the LAST  *)
(*           input header (unreadable = no read permission bit set in its  *)
(*           mode; denied = some read bit is set but this user may not     *)
(*           read the file)                                                *)
(*   clang   "accept" | "reject" | "refuse"  verdict of clang on the       *)
(*           translation unit (refuse = clang cannot even start: invalid   *)
(*           clang arguments, unreadable input; libclang returns no TU)    *)
(*   codegen "ok" | "fail"         an I/O failure while serialising        *)
(*           (--wrap-static-fns into an unwritable place)                  *)
(*                                                                         *)
(* L1 (what the property demands): Allowed(f) - the result is an error     *)
(*   value that corresponds to a fault that is present, bindings iff there *)
(*   is no fault; never Panic / Hang / Signal.                             *)
(* L2 (what the code does): the stage machine below, in the order of       *)
(*   builder_from_flags, Builder::generate, Bindings::generate, parse,     *)
(*   codegen::codegen.  Outcome(f) is the unique terminal result.          *)
(* L3: Outcome(f) \in Allowed(f), determinism, totality, termination.      *)
(***************************************************************************)
EXTENDS Naturals, Sequences, FiniteSets, TLC

CONSTANT Variant   \* "fixed" : what the property demands at the three places where the code panics
                   \* "code"  : the code as it is: the mode-bit test lets a header through that this user
                   \*           may not read; BindgenContext::new `expect`s a translation unit
                   \* "nightly0Panics" : the code before 5c8f7ec8 (RustTarget::from_str("1.0-nightly")
                   \*           overflowed `minor -= 1` in debug builds); kept as a sensitivity variant
                   \* "noEditionCheck" | "noPathCheck" | "swallowCodegen" : sensitivity variants

FlagsV == {"ok", "invalid", "nightly0"}
EditionV == {"none", "available", "unavailable"}
PathV == {"ok", "missing", "dir", "unreadable", "denied"}
ClangV == {"accept", "reject", "refuse"}
CodegenV == {"ok", "fail"}
Facts == [flags : FlagsV, edition : EditionV, path : PathV, clang : ClangV, codegen : CodegenV]

Good == {"ok", "flags_err", "err:UnsupportedEdition", "err:NotExist", "err:FolderAsHeader",
         "err:InsufficientPermissions", "err:ClangDiagnostic", "err:Codegen"}
Bad == {"panic", "hang", "signal"}

PathErr(p) == CASE p = "missing" -> "err:NotExist" [] p = "dir" -> "err:FolderAsHeader"
                [] p \in {"unreadable", "denied"} -> "err:InsufficientPermissions"

(* L1 *)
Faults(f) ==
     (IF f.flags # "ok" THEN {"flags_err"} ELSE {})
  \cup (IF f.edition = "unavailable" THEN {"err:UnsupportedEdition"} ELSE {})
  \cup (IF f.path # "ok" THEN {PathErr(f.path)} ELSE {})
  \cup (IF f.path = "ok" /\ f.clang \in {"reject", "refuse"} THEN {"err:ClangDiagnostic"} ELSE {})
  \cup (IF f.codegen = "fail" THEN {"err:Codegen"} ELSE {})
Allowed(f) == IF Faults(f) = {} THEN {"ok"} ELSE Faults(f)

(* L2 as a function: the first check that fires, in the code's order        *)
Outcome(f) ==
  IF f.flags = "invalid" THEN "flags_err"
  ELSE IF f.flags = "nightly0" THEN (IF Variant = "nightly0Panics" THEN "panic" ELSE "flags_err")
  ELSE IF f.edition = "unavailable" /\ Variant # "noEditionCheck" THEN "err:UnsupportedEdition"
  ELSE IF f.path \notin {"ok", "denied"} /\ Variant # "noPathCheck" THEN PathErr(f.path)
  ELSE IF f.path = "denied" /\ Variant # "code" THEN PathErr(f.path)
  ELSE IF f.path = "denied" \/ f.clang = "refuse" THEN (IF Variant = "code" THEN "panic" ELSE "err:ClangDiagnostic")
  ELSE IF f.clang = "reject" THEN "err:ClangDiagnostic"
  ELSE IF f.codegen = "fail" /\ Variant # "swallowCodegen" THEN "err:Codegen"
  ELSE "ok"
=============================================================================
