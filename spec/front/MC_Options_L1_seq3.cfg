SPECIFICATION Spec
CONSTANTS
    Ideal = TRUE
    Mode = "seq"
    MaxLen = 3
    Mutation = "none"
INVARIANTS Law DefaultsEqual
CHECK_DEADLOCK FALSE
