SPECIFICATION Spec
CONSTANTS
    Ideal = FALSE
    Mode = "pairs"
    MaxLen = 2
    Mutation = "none"
INVARIANTS Law DefaultsEqual
CHECK_DEADLOCK FALSE
