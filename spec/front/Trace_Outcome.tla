---------------------------- MODULE Trace_Outcome ----------------------------
(***************************************************************************)
(* Trace validation (impl -> spec) for C12.  Input: NDJSON, one line per   *)
(* observed invocation of the real code (library driver inside             *)
(* catch_unwind, or the CLI under a timeout):                              *)
(*   {"case", "ch", "facts": {flags, edition, path, clang, codegen},       *)
(*    "outcome", "key"}                                                    *)
(* One state per consumed line.  An observation is accepted by the         *)
(* property iff outcome \in Allowed(facts) (so panic / hang / signal are   *)
(* always rejections); it conforms to the model of the code iff            *)
(* outcome = Outcome(facts) (a difference there, with the property holding,*)
(* is DRIFT).                                                              *)
(***************************************************************************)
EXTENDS OutcomeRules, Json, IOUtils

Rec == ndJsonDeserialize(IOEnv.TRACE)

VARIABLES l, viol, drift, nacc, nrej
tvars == <<l, viol, drift, nacc, nrej>>

TInit == l = 1 /\ viol = <<>> /\ drift = <<>> /\ nacc = 0 /\ nrej = 0

Cap(s, x) == IF Len(s) < 400 THEN Append(s, x) ELSE s

Consume ==
  /\ l <= Len(Rec)
  /\ LET e == Rec[l]
         f == e.facts
         wellFormed == f \in Facts /\ e.outcome \in Good \cup Bad
     IN /\ wellFormed                                   \* otherwise the trace is rejected (tool error)
        /\ IF e.outcome \in Allowed(f)
           THEN /\ nacc' = nacc + 1 /\ UNCHANGED <<viol, nrej>>
                /\ drift' = IF e.outcome = Outcome(f) THEN drift
                            ELSE Cap(drift, [case |-> e.case, ch |-> e.ch, got |-> e.outcome, model |-> Outcome(f)])
           ELSE /\ nrej' = nrej + 1 /\ UNCHANGED <<drift, nacc>>
                /\ viol' = Cap(viol, [case |-> e.case, ch |-> e.ch, key |-> e.key, got |-> e.outcome,
                                      allowed |-> Allowed(f), facts |-> f])
  /\ l' = l + 1

TSpec == TInit /\ [][Consume]_tvars

Accepted ==
  LET d == TLCGet("stats").diameter IN
  IF d - 1 = Len(Rec) THEN TRUE
  ELSE /\ PrintT(<<"REJECTED", ToJson([at |-> d, line |-> Rec[d]])>>)
       /\ FALSE

TDone == l = Len(Rec) + 1
Report == TDone => /\ PrintT(<<"VIOL", ToJson(viol)>>)
                   /\ PrintT(<<"DRIFT", ToJson(drift)>>)
                   /\ PrintT(<<"COUNTS", ToJson([accepted |-> nacc, rejected |-> nrej, events |-> Len(Rec)])>>)
=============================================================================
