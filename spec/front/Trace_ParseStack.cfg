SPECIFICATION TSpec
INVARIANT Report
POSTCONDITION Accepted
CHECK_DEADLOCK FALSE
