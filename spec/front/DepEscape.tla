----------------------------- MODULE DepEscape -----------------------------
(***************************************************************************)
(* The dep-file line bindgen writes (bindgen/deps.rs DepfileSpec::to_string)*)
(* and the readers that parse it back.                                      *)
(*                                                                         *)
(* A name is a non-empty sequence of one-character strings.                *)
(* Writer (transcribed): s.replace('\\', "\\\\").replace(' ', "\\ ") on the *)
(* target and on every dependency; line = target ":" (" " dep)*.            *)
(* Reference reader (dep-info grammar): the target ends at the first ':',   *)
(* dependencies are separated by unescaped spaces, `\ ` -> space,           *)
(* `\\` -> backslash, any other backslash is literal.                       *)
(* GnuRead: what GNU make additionally does to a prerequisite list ('#'     *)
(* comment, '$' expansion, backslashes only special in front of space/'#'): *)
(* diagnostic only, never a verdict.                                        *)
(***************************************************************************)
EXTENDS Naturals, Sequences

CONSTANT EscVariant   \* "code" | "noBackslash" | "spaceFirst"   (sensitivity variants)

BS == "\\"

(* str::replace: every occurrence of the one-character pattern             *)
RECURSIVE Rep(_, _, _)
Rep(s, from, to) ==
  IF s = <<>> THEN <<>>
  ELSE (IF Head(s) = from THEN to ELSE <<Head(s)>>) \o Rep(Tail(s), from, to)

Escape(s) ==
  CASE EscVariant = "code"        -> Rep(Rep(s, BS, <<BS, BS>>), " ", <<BS, " ">>)
    [] EscVariant = "noBackslash" -> Rep(s, " ", <<BS, " ">>)
    [] EscVariant = "spaceFirst"  -> Rep(Rep(s, " ", <<BS, " ">>), BS, <<BS, BS>>)

RECURSIVE JoinDeps(_)
JoinDeps(ds) == IF ds = <<>> THEN <<>> ELSE <<" ">> \o Escape(Head(ds)) \o JoinDeps(Tail(ds))

DepLine(target, deps) == Escape(target) \o <<":">> \o JoinDeps(deps)

-----------------------------------------------------------------------------
(* reference reader                                                         *)
RECURSIVE RdTarget(_, _, _)
RdTarget(s, i, cur) ==      \* <<target, index after ':'>>
  IF i > Len(s) THEN <<cur, i>>
  ELSE IF s[i] = BS /\ i < Len(s) /\ s[i + 1] \in {" ", BS} THEN RdTarget(s, i + 2, Append(cur, s[i + 1]))
  ELSE IF s[i] = ":" THEN <<cur, i + 1>>
  ELSE RdTarget(s, i + 1, Append(cur, s[i]))

Flush(acc, cur) == IF cur = <<>> THEN acc ELSE Append(acc, cur)

RECURSIVE RdDeps(_, _, _, _)
RdDeps(s, i, cur, acc) ==
  IF i > Len(s) THEN Flush(acc, cur)
  ELSE IF s[i] = BS /\ i < Len(s) /\ s[i + 1] \in {" ", BS} THEN RdDeps(s, i + 2, Append(cur, s[i + 1]), acc)
  ELSE IF s[i] = " " THEN RdDeps(s, i + 1, <<>>, Flush(acc, cur))
  ELSE RdDeps(s, i + 1, Append(cur, s[i]), acc)

ReadLine(line) ==
  LET t == RdTarget(line, 1, <<>>) IN [target |-> t[1], deps |-> RdDeps(line, t[2], <<>>, <<>>)]

RoundTrip(target, deps) ==
  ReadLine(DepLine(target, deps)) = [target |-> target, deps |-> deps]

-----------------------------------------------------------------------------
(* GNU make's reading of the prerequisite part (diagnostic)                 *)
RECURSIVE BackRun(_, _)
BackRun(s, i) == IF i <= Len(s) /\ s[i] = BS THEN 1 + BackRun(s, i + 1) ELSE 0
Rpt(c, n) == [k \in 1..n |-> c]

RECURSIVE GnuDeps(_, _, _, _)
GnuDeps(s, i, cur, acc) ==
  IF i > Len(s) THEN Flush(acc, cur)
  ELSE IF s[i] = BS THEN
    LET n == BackRun(s, i)  j == i + n IN
    IF j <= Len(s) /\ s[j] \in {" ", "#"} THEN
      (* 2k+1 backslashes quote the character, 2k do not; k backslashes remain *)
      IF n % 2 = 1 THEN GnuDeps(s, j + 1, cur \o Rpt(BS, n \div 2) \o <<s[j]>>, acc)
      ELSE GnuDeps(s, j, cur \o Rpt(BS, n \div 2), acc)
    ELSE GnuDeps(s, j, cur \o Rpt(BS, n), acc)
  ELSE IF s[i] = "#" THEN Flush(acc, cur)                        \* comment to end of line
  ELSE IF s[i] = "$" THEN
    IF i < Len(s) /\ s[i + 1] = "$" THEN GnuDeps(s, i + 2, Append(cur, "$"), acc)
    ELSE GnuDeps(s, i + 2, cur, acc)                               \* undefined one-letter variable
  ELSE IF s[i] = " " THEN GnuDeps(s, i + 1, <<>>, Flush(acc, cur))
  ELSE GnuDeps(s, i + 1, Append(cur, s[i]), acc)

GnuRoundTrip(target, deps) ==
  LET line == DepLine(target, deps)  t == RdTarget(line, 1, <<>>) IN
  GnuDeps(line, t[2], <<>>, <<>>) = deps

-----------------------------------------------------------------------------
(* Environment variables consulted by Builder::generate                     *)
(* (lib.rs get_extra_clang_args -> get_target_dependent_env_var -> env_var):*)
(* env is the set of variables that are set; tgtHasDash says whether        *)
(* $TARGET contains a '-'.  Result: the sequence of variables consulted,    *)
(* each of which is announced through read_env_var before it is read.       *)
V == "BINDGEN_EXTRA_CLANG_ARGS"
VT == "BINDGEN_EXTRA_CLANG_ARGS_<target>"
VU == "BINDGEN_EXTRA_CLANG_ARGS_<target_>"
EnvUniverse == {"TARGET", V, VT, VU}

Consulted(env, tgtHasDash) ==
  LET vu == IF tgtHasDash THEN VU ELSE VT     \* replace('-', "_") is the identity without a dash
  IN IF "TARGET" \in env THEN
       IF VT \in env THEN <<"TARGET", VT>>
       ELSE IF vu \in env THEN <<"TARGET", VT, vu>>
       ELSE <<"TARGET", VT, vu, V>>
     ELSE <<"TARGET", V>>

Winner(env, tgtHasDash) ==      \* the variable whose value becomes clang arguments
  LET vu == IF tgtHasDash THEN VU ELSE VT IN
  IF "TARGET" \in env /\ VT \in env THEN VT
  ELSE IF "TARGET" \in env /\ vu \in env THEN vu
  ELSE IF V \in env THEN V ELSE "none"
=============================================================================
