------------------------------- MODULE Outcome -------------------------------
(***************************************************************************)
(* C12: the stage machine of one invocation (L2), over the facts / Allowed  *)
(* / Outcome vocabulary of OutcomeRules.tla (L1 and the code's order as a   *)
(* function).  See OutcomeRules.tla for the meaning of the facts.           *)
(***************************************************************************)
EXTENDS OutcomeRules

-----------------------------------------------------------------------------
(* L2 as a machine                                                          *)
VARIABLES facts, stage, result
vars == <<facts, stage, result>>

Stages == <<"flags", "edition", "callbacks", "path", "clang", "codegen", "done">>
Init == facts \in Facts /\ stage = "flags" /\ result = "none"

Finish(r) == stage' = "done" /\ result' = r /\ UNCHANGED facts
Go(s) == stage' = s /\ UNCHANGED <<facts, result>>

ParseFlags ==        \* builder_from_flags (clap, RustTarget::from_str)
  /\ stage = "flags"
  /\ IF facts.flags = "invalid" THEN Finish("flags_err")
     ELSE IF facts.flags = "nightly0" THEN Finish(IF Variant = "nightly0Panics" THEN "panic" ELSE "flags_err")
     ELSE Go("edition")
CheckEdition ==      \* Builder::generate: edition.is_available(rust_target)
  /\ stage = "edition"
  /\ IF facts.edition = "unavailable" /\ Variant # "noEditionCheck" THEN Finish("err:UnsupportedEdition")
     ELSE Go("callbacks")
HeaderCallbacks ==   \* env lookups, header_file callbacks, -include for all but the last header
  stage = "callbacks" /\ Go("path")
CheckPath ==         \* Bindings::generate: metadata / is_dir / mode bits of the last header
  /\ stage = "path"
  /\ IF facts.path \notin {"ok", "denied"} /\ Variant # "noPathCheck" THEN Finish(PathErr(facts.path))
     ELSE IF facts.path = "denied" /\ Variant # "code" THEN Finish(PathErr(facts.path))   \* an access test, not mode bits
     ELSE Go("clang")
ClangParse ==        \* BindgenContext::new + parse(): any diagnostic of severity >= error
  /\ stage = "clang"
  /\ IF facts.path = "denied" \/ facts.clang = "refuse"      \* TranslationUnit::parse returns None
     THEN Finish(IF Variant = "code" THEN "panic" ELSE "err:ClangDiagnostic")
     ELSE IF facts.clang = "reject" THEN Finish("err:ClangDiagnostic") ELSE Go("codegen")
Codegen ==           \* codegen::codegen(context).map_err(BindgenError::Codegen)
  /\ stage = "codegen"
  /\ IF facts.codegen = "fail" /\ Variant # "swallowCodegen" THEN Finish("err:Codegen") ELSE Finish("ok")

Next == ParseFlags \/ CheckEdition \/ HeaderCallbacks \/ CheckPath \/ ClangParse \/ Codegen
Spec == Init /\ [][Next]_vars /\ WF_vars(Next)

Done == stage = "done"
TypeOK == facts \in Facts /\ (result = "none" <=> ~Done) /\ (Done => result \in Good \cup Bad)
MachineIsFunction == Done => result = Outcome(facts)          \* determinism: one terminal result
AllowedResult == Done => result \in Allowed(facts)             \* the property, on the model
NeverBad == result \notin Bad
Terminates == <>Done                                           \* totality: every fact vector ends
=============================================================================
