--------------------------- MODULE Trace_ParseStack ---------------------------
(***************************************************************************)
(* Trace validation (impl -> spec) of the parse stack for C12.  Input: the *)
(* hook log of the real bindgen, many runs concatenated:                   *)
(*   reset{case}, parse_push{item, depth}, parse_pop{item, depth},         *)
(*   gen_end{case, outcome}        (depth = stack depth before the op)     *)
(* One state per event.  The recorded sequence must be a behaviour of the  *)
(* discipline of ParseStackRules: every push respects the guard (the item  *)
(* is not on the stack), every pop removes the item pushed last, the       *)
(* recorded depth is the depth of the specification's stack, the depth     *)
(* never exceeds the number of items seen, and the stack is empty when a   *)
(* generation ends with bindings.                                          *)
(***************************************************************************)
EXTENDS ParseStackRules, Json, IOUtils, TLC

Rec == ndJsonDeserialize(IOEnv.TRACE)

VARIABLES l, case, stack, items, viol, npush, ncase, maxdepth
tvars == <<l, case, stack, items, viol, npush, ncase, maxdepth>>
TInit == l = 1 /\ case = "" /\ stack = <<>> /\ items = {} /\ viol = <<>> /\ npush = 0 /\ ncase = 0 /\ maxdepth = 0

Cap(s, x) == IF Len(s) < 200 THEN Append(s, x) ELSE s
Bad(kind, e) == Cap(viol, [case |-> case, kind |-> kind, item |-> e.item, depth |-> e.depth, at |-> l])

Step ==
  /\ l <= Len(Rec)
  /\ LET e == Rec[l] IN
     CASE e.ev = "reset" ->
            /\ case' = e.case /\ stack' = <<>> /\ items' = {} /\ ncase' = ncase + 1
            /\ UNCHANGED <<viol, npush, maxdepth>>
       [] e.ev = "parse_push" ->
            /\ stack' = Append(stack, e.item) /\ items' = items \cup {e.item}
            /\ npush' = npush + 1
            /\ maxdepth' = IF Len(stack) + 1 > maxdepth THEN Len(stack) + 1 ELSE maxdepth
            /\ viol' = IF ~CanPush(stack, e.item) THEN Bad("item-twice-on-stack", e)
                       ELSE IF e.depth # Len(stack) THEN Bad("depth-differs", e)
                       ELSE IF ~BoundedBy(Append(stack, e.item), items \cup {e.item}) THEN Bad("unbounded", e)
                       ELSE viol
            /\ UNCHANGED <<case, ncase>>
       [] e.ev = "parse_pop" ->
            /\ stack' = IF stack = <<>> THEN stack ELSE SubSeq(stack, 1, Len(stack) - 1)
            /\ viol' = IF ~PopsLast(stack, e.item) THEN Bad("pop-not-last-pushed", e)
                       ELSE IF e.depth # Len(stack) THEN Bad("depth-differs", e)
                       ELSE viol
            /\ UNCHANGED <<case, items, npush, ncase, maxdepth>>
       [] e.ev = "gen_end" ->
            /\ viol' = IF e.outcome = "ok" /\ stack # <<>>
                       THEN Cap(viol, [case |-> case, kind |-> "not-empty-at-end", item |-> stack[Len(stack)],
                                       depth |-> Len(stack), at |-> l])
                       ELSE viol
            /\ stack' = <<>>
            /\ UNCHANGED <<case, items, npush, ncase, maxdepth>>
       [] OTHER -> UNCHANGED <<case, stack, items, viol, npush, ncase, maxdepth>>
  /\ l' = l + 1
TSpec == TInit /\ [][Step]_tvars

Accepted ==
  LET d == TLCGet("stats").diameter IN
  IF d - 1 = Len(Rec) THEN TRUE
  ELSE /\ PrintT(<<"REJECTED", ToJson([at |-> d])>>) /\ FALSE
TDone == l = Len(Rec) + 1
Report == TDone => /\ PrintT(<<"VIOL", ToJson(viol)>>)
                   /\ PrintT(<<"COUNTS", ToJson([cases |-> ncase, pushes |-> npush, events |-> Len(Rec), maxdepth |-> maxdepth])>>)
=============================================================================
