----------------------------- MODULE MC_ParseStack -----------------------------
(* Bounded checks and reference-graph generator for ParseStack.tla.           *)
EXTENDS ParseStack, Json
Emitted == Done => PrintT(<<"GRAPH", ToJson([refs |-> refs, pushes |-> pushes])>>)
=============================================================================
