---------------------------- MODULE MC_DepEscape ----------------------------
(***************************************************************************)
(* Bounded checks of DepEscape: round trip of the dep-file line through    *)
(* the reference reader for every target / dependency list built from      *)
(* names over {a, space, backslash, '#', '$', ':', E (stands for a         *)
(* non-ASCII letter)} up to length 3, and the environment-variable lookup. *)
(***************************************************************************)
EXTENDS DepEscape, FiniteSets, TLC, Json

CONSTANTS Alphabet, Reader   \* Reader: "ref" | "gnu"

Alpha7 == {"a", " ", BS, "#", "$", ":", "E"}
Alpha3 == {"a", " ", BS}
ASSUME \A c \in Alphabet : Len(c) = 1

NamesUpTo(k) == UNION {[1..n -> Alphabet] : n \in 1..k}
NoColon(k) == UNION {[1..n -> Alphabet \ {":"}] : n \in 1..k}

VARIABLES case, phase
Init == phase = "start" /\ case = <<>>
Pick == phase = "start" /\ phase' = "read" /\
  \/ \E t \in NoColon(1), d \in NamesUpTo(3) : case' = <<t, <<d>>>>
  \/ \E t \in NoColon(1), d \in NamesUpTo(3), e \in NamesUpTo(1) : case' = <<t, <<d, e>>>> \/ case' = <<t, <<e, d>>>>
  \/ \E t \in NoColon(3), d \in NamesUpTo(1) : case' = <<t, <<d>>>>
  \/ \E t \in NoColon(3) : case' = <<t, <<>>>>
Next == Pick
Spec == Init /\ [][Next]_<<case, phase>>

RoundTripOK == phase = "read" =>
  IF Reader = "ref" THEN RoundTrip(case[1], case[2]) ELSE GnuRoundTrip(case[1], case[2])

(* environment lookup: every variable consulted is announced, once per consultation;      *)
(* the winner is among the consulted variables and is set                                  *)
Envs == SUBSET EnvUniverse
EnvTable == {[env |-> e, dash |-> d, consulted |-> Consulted(e, d), winner |-> Winner(e, d)] : e \in Envs, d \in BOOLEAN}
PrintEnv == phase = "read" /\ case[2] = <<>> /\ case[1] = <<"a">> => PrintT(<<"ENV", ToJson(EnvTable)>>)
EnvOK == \A env \in Envs, dash \in BOOLEAN :
  LET c == Consulted(env, dash)  w == Winner(env, dash) IN
  /\ c[1] = "TARGET"
  /\ w # "none" => (w \in env /\ \E i \in DOMAIN c : c[i] = w /\ \A j \in 1..(i - 1) : c[j] = "TARGET" \/ c[j] \notin env)
  /\ w = "none" => \A i \in DOMAIN c : c[i] = "TARGET" \/ c[i] \notin env
  /\ dash => Cardinality({c[i] : i \in DOMAIN c}) = Len(c)      \* no variable twice when the names differ
ASSUME EnvOK
=============================================================================
