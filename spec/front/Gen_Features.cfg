SPECIFICATION Spec
CONSTANTS
    MaxMinor = 88
    TargetRows <- Code_TargetRows
    NightlyRow <- Code_NightlyRow
    EditionRows <- Code_EditionRows
    Compat <- Code_Compat
    LatestEdition <- Code_LatestEdition
    Forms <- AllFormsD
    NightlyZero = "reject"
INVARIANTS Emit EmitTables
CHECK_DEADLOCK FALSE
