---------------------------- MODULE MC_Allowlist ----------------------------
(* Bounded model of the traversal machine over every small graph:           *)
(* out = Reach(roots) \ blocklisted, independent of the queue discipline.   *)
EXTENDS Allowlist
CONSTANTS N, Kinds, Discipline, SkipBlockedTraversal

Node == 1..N
VARIABLES G, roots, pred, seen, queue, out
vars == <<G, roots, pred, seen, queue, out>>

EdgeChoices == {<<>>} \cup {<<<<t, k>>>> : t \in Node, k \in Kinds}
               \cup {<<<<t, k>>, <<u, "TypeReference">>>> : t \in Node, u \in Node, k \in Kinds}

Init == /\ \E es \in [Node -> EdgeChoices], bl \in SUBSET Node, en \in {Node, Node \ {1}}, ct \in BOOLEAN :
             G = [nodes |-> [n \in Node |-> [edges |-> es[n], blocklisted |-> n \in bl, enabled |-> n \in en]],
                  opt |-> [allowlist_recursively |-> TRUE, cc_types |-> ct, cc_vars |-> TRUE,
                           cc_methods |-> TRUE, cc_constructors |-> TRUE, cc_destructors |-> TRUE]]
        /\ roots \in (SUBSET Node) \ {{}}
        /\ pred \in {"all", "codegen"}
        /\ seen = roots
        /\ queue = [i \in 1..Cardinality(roots) |->
                      (CHOOSE f \in [1..Cardinality(roots) -> roots] :
                         \A a, b \in 1..Cardinality(roots) : a # b => f[a] # f[b])[i]]
        /\ out = {}

(* one `next()` of ItemTraversal + the blocklist filter of AllowlistedItemsTraversal *)
Step ==
  /\ queue # <<>>
  /\ LET i == IF Discipline = "lifo" THEN Len(queue) ELSE 1
         n == queue[i]
         rest == [j \in 1..(Len(queue) - 1) |-> IF j < i THEN queue[j] ELSE queue[j + 1]]
         succ == IF SkipBlockedTraversal /\ G.nodes[n].blocklisted THEN {} ELSE Succ(G, pred, n)
         new == succ \ seen
         newseq == CHOOSE s \in [1..Cardinality(new) -> new] :
                     \A a, b \in 1..Cardinality(new) : a # b => s[a] # s[b]
     IN /\ seen' = seen \cup new
        /\ queue' = rest \o newseq
        /\ out' = IF G.nodes[n].blocklisted THEN out ELSE out \cup {n}
  /\ UNCHANGED <<G, roots, pred>>

Next == Step
Spec == Init /\ [][Next]_vars

Done == queue = <<>>
ResultIsReach == Done => out = NotBlocked(G, Reach(G, roots, pred))
NeverBlocked == \A n \in out : ~G.nodes[n].blocklisted
SeenInvariant == Range(queue) \subseteq seen /\ out \subseteq seen
CodegenInAllow == CodegenSubset(G, roots)
=============================================================================
