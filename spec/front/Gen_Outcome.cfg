SPECIFICATION Spec
CONSTANTS
  Variant = "code"
INVARIANTS TypeOK MachineIsFunction Emitted
CHECK_DEADLOCK FALSE
