SPECIFICATION Spec
CONSTANTS
    Ideal = TRUE
    Mode = "single"
    MaxLen = 1
    Mutation = "polarity"
INVARIANTS Law DefaultsEqual
CHECK_DEADLOCK FALSE
