SPECIFICATION Spec
INVARIANTS Emit RootsEmittedUnlessBlocked NothingBlocked
CHECK_DEADLOCK FALSE
