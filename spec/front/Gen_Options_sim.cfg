SPECIFICATION Spec
CONSTANTS
    Ideal = FALSE
    Mode = "sim"
    MaxLen = 25
    Mutation = "none"
INVARIANTS Emit
CHECK_DEADLOCK FALSE
