----------------------------- MODULE Gen_Allow -----------------------------
(***************************************************************************)
(* Behaviour generator for allowlisting (spec -> impl).                    *)
(*                                                                         *)
(* The program (JSON file $FAMILY) lists declarations with their kind,     *)
(* name as a sequence of characters, dependency edges and the names they   *)
(* put into the bindings.  TLC chooses: up to MaxRoots root patterns, each *)
(* a (flag kind, regular-expression AST) pair drawn from the forms the      *)
(* property lists (literal, prefix.*, alternation of two names, a name     *)
(* that is a proper prefix of another name), an optional blocklisted       *)
(* declaration, and recursive / non-recursive mode.  The expected bindings  *)
(* are computed from Allowlist.tla (reachability) and RegexSem.tla          *)
(* (whole-name matching) and printed with the concrete flags.               *)
(***************************************************************************)
EXTENDS Allowlist, RegexSem, Json, IOUtils

Fam == JsonDeserialize(IOEnv.FAMILY)
MaxRoots == Fam.maxroots
Decl == DOMAIN Fam.decls
D(n) == Fam.decls[n]

Chars(n) == D(n).chars
LitOf(cs) == LET RECURSIVE F(_)
                 F(i) == IF i = Len(cs) THEN Lit(cs[i]) ELSE Cat(Lit(cs[i]), F(i + 1))
             IN F(1)
PrefixOf(cs, k) == Cat(LitOf(SubSeq(cs, 1, k)), Star(AnyC))

(* flag kinds and the declaration kinds they can select *)
Selects(flag, kind) ==
  CASE flag = "item" -> TRUE
    [] flag = "type" -> kind = "type"
    [] flag = "function" -> kind \in {"function", "method"}   \* methods are Function items, enabled by cc.methods
    [] flag = "var" -> kind \in {"var", "anonenum"}

FlagFor(n) == IF D(n).kind = "anonenum" THEN "var" ELSE IF D(n).kind = "method" THEN "function" ELSE D(n).kind

(* candidate patterns *)
Patterns ==
  UNION {{[flag |-> f, re |-> LitOf(D(n).match)] : f \in {FlagFor(n), "item"}} : n \in Decl}
  \cup UNION {{[flag |-> FlagFor(n), re |-> PrefixOf(D(n).match, k)] :
                 k \in {2, 4} \cap 1..(Len(D(n).match) - 1)} : n \in Decl}
  \cup UNION {{[flag |-> FlagFor(n), re |-> Alt(LitOf(D(n).match), LitOf(D(m).match))] :
                 m \in {m \in Decl : D(m).kind = D(n).kind /\ m # n /\ D(m).alt /\ D(n).alt}} : n \in Decl}

(* names a declaration can be selected by (an unnamed enum is selected by its variants) *)
Selected(p) == {n \in Decl : Selects(p.flag, D(n).kind) /\
                  \E cs \in Range(D(n).names) : WholeMatch(p.re, cs)}

VARIABLES pats, bl, rec, fnsOn
vars == <<pats, bl, rec, fnsOn>>

G(bl_) == [nodes |-> [n \in Decl |-> [edges |-> [i \in DOMAIN D(n).deps |-> <<D(n).deps[i], D(n).edge[i]>>],
                                     blocklisted |-> n \in bl_,
                                     (* with --ignore-functions function items are not enabled for codegen *)
                                     enabled |-> D(n).kind # "function" \/ fnsOn]],
          opt |-> [allowlist_recursively |-> TRUE, cc_types |-> TRUE, cc_vars |-> TRUE, cc_methods |-> TRUE,
                   cc_constructors |-> TRUE, cc_destructors |-> TRUE]]


Blockable == {n \in Decl : D(n).blockable}

Init == /\ pats \in {{p} : p \in Patterns}
                    \cup (IF MaxRoots >= 2 THEN {{p, q} : p \in Patterns, q \in Patterns} ELSE {})
        /\ bl \in {{}} \cup {{b} : b \in Blockable}
        /\ rec \in BOOLEAN
        /\ fnsOn \in BOOLEAN

Next == UNCHANGED vars
Spec == Init /\ [][Next]_vars

Roots == {n \in UNION {Selected(p) : p \in pats} : D(n).kind # "function" \/ fnsOn}
Expected ==
  LET g == [G(bl) EXCEPT !.opt.allowlist_recursively = rec]
  IN ExpectedCodegen(g, Roots)

SetToSeqOrd(S) ==
  LET RECURSIVE F(_)
      F(T) == IF T = {} THEN <<>> ELSE LET x == CHOOSE x \in T : TRUE IN <<x>> \o F(T \ {x})
  IN F(S)

Emit == PrintT(<<"CASE", ToJson([
          pats |-> SetToSeqOrd({[flag |-> p.flag, re |-> Show(p.re)] : p \in pats}),
          bl |-> SetToSeqOrd(bl), rec |-> rec, fns |-> fnsOn,
          roots |-> SetToSeqOrd(Roots), expected |-> SetToSeqOrd(Expected)])>>)

(* L1 sanity on the generated space *)
RootsEmittedUnlessBlocked == \A n \in Roots : n \in Expected \/ n \in bl
NothingBlocked == Expected \cap bl = {}
=============================================================================
