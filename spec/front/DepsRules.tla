------------------------------ MODULE DepsRules ------------------------------
(***************************************************************************)
(* Pure operators of the C17 specification, shared by the include-stack    *)
(* machine (Deps.tla) and the trace specification (Trace_Deps.tla):        *)
(* header search and the L1 set "every input header and every file         *)
(* included, directly or transitively, in an active region".               *)
(* lay = [dir |-> file -> directory, name |-> file -> name]; path = the     *)
(* sequence of search directories; a directive = [name, form, active].     *)
(***************************************************************************)
EXTENDS Naturals, Sequences, FiniteSets, TLC

Range(s) == {s[i] : i \in DOMAIN s}

AtIn(lay, files, d, n) == {f \in files : lay.dir[f] = d /\ lay.name[f] = n}
RECURSIVE OnPathIn(_, _, _, _, _, _)
OnPathIn(lay, path, files, none, n, i) ==
  IF i > Len(path) THEN none
  ELSE IF AtIn(lay, files, path[i], n) # {} THEN CHOOSE f \in AtIn(lay, files, path[i], n) : TRUE
  ELSE OnPathIn(lay, path, files, none, n, i + 1)
(* quoted: the includer's directory first, then the search path; angle: the path only *)
ResolveIn(lay, path, files, none, f, d) ==
  IF d.form = "q" /\ AtIn(lay, files, lay.dir[f], d.name) # {}
  THEN CHOOSE g \in AtIn(lay, files, lay.dir[f], d.name) : TRUE
  ELSE OnPathIn(lay, path, files, none, d.name, 1)

ActiveTargetsIn(lay, path, files, none, cont, f) ==
  {ResolveIn(lay, path, files, none, f, cont[f].dirs[i]) :
     i \in {j \in DOMAIN cont[f].dirs : cont[f].dirs[j].active}}
RECURSIVE ReachIn(_, _, _, _, _, _, _)
ReachIn(lay, path, files, none, cont, S, k) ==
  IF k = 0 THEN S
  ELSE ReachIn(lay, path, files, none, cont,
               S \cup UNION {ActiveTargetsIn(lay, path, files, none, cont, f) : f \in S \ {none}}, k - 1)
(* L1: every input header and every file included, directly or transitively, in an active region *)
InfluencingIn(lay, path, files, none, cont, starts, n) == ReachIn(lay, path, files, none, cont, starts, n)
=============================================================================
