SPECIFICATION Spec
CONSTANTS
  N = 3
  SearchPath <- NoPath
  Names <- ShapeNames
  Forms = {"q"}
  Guards = {"none"}
  Actives = {TRUE}
  DeadNames <- ShapeNames
  MaxFan = 1
  Layouts <- ShapeLayouts
  RootChoices <- OneRoot
  ArgIncludes <- NoArgInclude
  Variant = "mainOnly"
INVARIANTS Exact
CHECK_DEADLOCK FALSE
