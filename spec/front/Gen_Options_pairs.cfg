SPECIFICATION Spec
CONSTANTS
    Ideal = FALSE
    Mode = "pairs"
    MaxLen = 2
    Mutation = "none"
INVARIANTS Emit
CHECK_DEADLOCK FALSE
