SPECIFICATION Spec
CONSTANTS
  Alphabet <- Alpha7
  Reader = "gnu"
  EscVariant = "code"
INVARIANTS RoundTripOK
CHECK_DEADLOCK FALSE
