------------------------------ MODULE ParseStack ------------------------------
(***************************************************************************)
(* C12: the `currently_parsed_types` discipline of ir/context.rs           *)
(* (begin_parsing / finish_parsing) and ir/item.rs from_ty_with_id.        *)
(*                                                                         *)
(* Declarations 1..N refer to each other (by value or through pointers,    *)
(* possibly to themselves and in cycles).  Building the type of a          *)
(* declaration pushes it, builds the types it refers to, and pops it.      *)
(* The guard: a declaration that is already on the stack (or already       *)
(* built) is not entered again - a reference to the partial type is used.  *)
(* Without the guard a cyclic reference recurses for ever (stack overflow  *)
(* in the real code).                                                      *)
(***************************************************************************)
EXTENDS ParseStackRules, TLC

CONSTANTS N,        \* number of declarations
          MaxRefs,  \* references per declaration
          Guard     \* TRUE: the code; FALSE: guard removed (sensitivity)

Decls == 1..N
RefSeqs == UNION {[1..k -> Decls] : k \in 0..MaxRefs}

VARIABLES refs, stack, built, todo, pushes
vars == <<refs, stack, built, todo, pushes>>

Init == /\ refs \in [Decls -> RefSeqs]
        /\ stack = <<>> /\ built = {} /\ pushes = 0
        /\ todo = [i \in 1..N |-> i]               \* top-level cursors in source order

DeclsOn == [i \in DOMAIN stack |-> stack[i].decl]
OnStack == OnStackOf(DeclsOn)

Begin(d, st) ==          \* begin_parsing(PartialType(d))
  /\ stack' = Append(st, [decl |-> d, next |-> 1])
  /\ pushes' = pushes + 1

TopLevel ==
  /\ stack = <<>> /\ todo # <<>>
  /\ todo' = Tail(todo)
  /\ IF Head(todo) \in built THEN UNCHANGED <<stack, pushes>> ELSE Begin(Head(todo), <<>>)
  /\ UNCHANGED <<refs, built>>

Step ==
  /\ stack # <<>> /\ Len(stack) <= N + 2            \* exploration bound for the unguarded variant
  /\ LET top == stack[Len(stack)]
         rest == SubSeq(stack, 1, Len(stack) - 1)
     IN IF top.next > Len(refs[top.decl])
        THEN /\ stack' = rest                       \* finish_parsing: pops the declaration it pushed
             /\ built' = built \cup {top.decl}
             /\ UNCHANGED pushes
        ELSE LET r == refs[top.decl][top.next]
                 st == Append(rest, [top EXCEPT !.next = @ + 1])
             IN /\ UNCHANGED built
                /\ IF r \in built \/ (Guard /\ r \in OnStack)
                   THEN stack' = st /\ UNCHANGED pushes   \* known or partial type: a reference, no descent
                   ELSE Begin(r, st)
  /\ UNCHANGED <<refs, todo>>

Next == TopLevel \/ Step
Spec == Init /\ [][Next]_vars /\ WF_vars(Next)

Done == stack = <<>> /\ todo = <<>>
NoDeclTwice == NoRepeat(DeclsOn)
Bounded == BoundedBy(DeclsOn, Decls)
PushedOnce == pushes <= N                       \* total work bounded by the number of declarations
WellNested == \A i \in DOMAIN stack : stack[i].decl \notin built
EmptyAtEnd == todo = <<>> /\ ~ENABLED Step => stack = <<>>
AllBuilt == Done => built = Decls
Terminates == <>Done
=============================================================================
