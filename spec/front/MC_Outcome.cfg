SPECIFICATION Spec
CONSTANTS
  Variant = "fixed"
INVARIANTS TypeOK MachineIsFunction AllowedResult NeverBad
PROPERTIES Terminates
CHECK_DEADLOCK FALSE
