SPECIFICATION Spec
CONSTANTS
    Ideal = FALSE
    Mode = "single"
    MaxLen = 1
    Mutation = "none"
INVARIANTS Law DefaultsEqual
CHECK_DEADLOCK FALSE
