SPECIFICATION Spec
CONSTANTS
    MaxMinor = 88
    TargetRows <- Code_TargetRows
    NightlyRow <- Code_NightlyRow
    EditionRows <- Code_EditionRows
    Compat <- Code_Compat
    LatestEdition <- Code_LatestEdition
    Forms <- AllFormsD
    NightlyZero = "panic"
INVARIANTS TypeOK FlagSound FlagMonotone EditionRule LatestEditionRule DefaultRule ParseRule ParseTotal ConstructMonotone SiteSound
CHECK_DEADLOCK FALSE
