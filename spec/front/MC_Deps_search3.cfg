SPECIFICATION Spec
CONSTANTS
  N = 3
  SearchPath <- Path2
  Names <- SearchNames
  Forms = {"q", "a"}
  Guards = {"none", "once"}
  Actives = {TRUE, FALSE}
  DeadNames <- SearchNames
  MaxFan = 2
  Layouts <- SearchLayouts
  RootChoices <- TwoRoots
  ArgIncludes <- NoArgInclude
  Variant = "code"
INVARIANTS TypeOK ReadIsInfluencing Exact Complete NothingExtra LinesCover
CHECK_DEADLOCK FALSE
