SPECIFICATION Spec
CONSTANTS
    MaxMinor = 88
    TargetRows <- Rows_offsetTooEarly
    NightlyRow <- Code_NightlyRow
    EditionRows <- Code_EditionRows
    Compat <- Code_Compat
    LatestEdition <- Code_LatestEdition
    Forms <- AllFormsD
    NightlyZero = "reject"
INVARIANTS TypeOK FlagSound FlagMonotone EditionRule LatestEditionRule DefaultRule ParseRule ParseTotal ConstructMonotone SiteSound
CHECK_DEADLOCK FALSE
