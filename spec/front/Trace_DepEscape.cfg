SPECIFICATION TSpec
CONSTANTS
  EscVariant = "code"
INVARIANT Report
POSTCONDITION Accepted
CHECK_DEADLOCK FALSE
