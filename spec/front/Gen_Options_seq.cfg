SPECIFICATION Spec
CONSTANTS
    Ideal = FALSE
    Mode = "seqsim"
    MaxLen = 4
    Mutation = "none"
INVARIANTS Emit
CHECK_DEADLOCK FALSE
