SPECIFICATION Spec
CONSTANTS
    Ideal = FALSE
    Mode = "seq"
    MaxLen = 4
    Mutation = "none"
INVARIANTS Emit
CHECK_DEADLOCK FALSE
