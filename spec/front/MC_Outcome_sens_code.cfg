SPECIFICATION Spec
CONSTANTS
  Variant = "code"
INVARIANTS NeverBad
CHECK_DEADLOCK FALSE
