SPECIFICATION Spec
CONSTANTS
  Variant = "noPathCheck"
INVARIANTS AllowedResult
CHECK_DEADLOCK FALSE
