SPECIFICATION Spec
CONSTANTS
    Ideal = FALSE
    Mode = "seq"
    MaxLen = 3
    Mutation = "none"
INVARIANTS Emit
CHECK_DEADLOCK FALSE
