SPECIFICATION Spec
CONSTANTS
    Ideal = TRUE
    Mode = "seq"
    MaxLen = 2
    Mutation = "firstHeaderPositional"
INVARIANTS Law DefaultsEqual
CHECK_DEADLOCK FALSE
