SPECIFICATION Spec
CONSTANTS
  N = 7
  SearchPath <- NoPath
  Names <- ShapeNames
  Forms = {"q"}
  Guards = {"none", "guard", "once"}
  Actives = {TRUE, FALSE}
  DeadNames <- LastName
  MaxFan = 5
  Layouts <- ShapeLayouts
  RootChoices <- TwoRoots
  ArgIncludes <- NoArgInclude
  Variant = "code"
INVARIANTS Emitted TypeOK ReadIsInfluencing Exact Complete NothingExtra LinesCover
CHECK_DEADLOCK FALSE
