SPECIFICATION Spec
CONSTANTS
  N = 4
  SearchPath <- NoPath
  Names <- ShapeNames
  Forms = {"q"}
  Guards = {"none", "guard", "once"}
  Actives = {TRUE, FALSE}
  DeadNames <- ShapeNames
  MaxFan = 2
  Layouts <- ShapeLayouts
  RootChoices <- TwoRoots
  ArgIncludes <- NoArgInclude
  Variant = "code"
INVARIANTS TypeOK ReadIsInfluencing Exact Complete NothingExtra LinesCover
CHECK_DEADLOCK FALSE
