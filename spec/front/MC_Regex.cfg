SPECIFICATION Spec
CONSTANTS
  Alphabet = {"a", "b"}
  MaxLen = 3
  Depth = 1
INVARIANTS Vector AnchoredImpliesSearch
CHECK_DEADLOCK FALSE
