------------------------------ MODULE Trace_Deps ------------------------------
(***************************************************************************)
(* Trace validation (impl -> spec) for C17 over the hook log of the real   *)
(* bindgen (`gen_begin{headers}`, one `dep{file}` per dependency recorded  *)
(* by BindgenContext::add_dep).  Input: NDJSON, one line per run of one    *)
(* materialised include DAG:                                               *)
(*   case, ch, n, dir[], name[], path[], content[] (directive lists),      *)
(*   starts[] (input headers and clang-argument -include files),           *)
(*   optional[] (a header_contents input is not a file on disk),           *)
(*   inputs[] (files named by gen_begin), deps[] (files named by the dep   *)
(*   events, in order; 0 = a path that is none of the DAG's files),        *)
(*   reported[] (what the dep-file of the same run lists),                 *)
(*   model_deps[] (per file: how many dep events the model of the code     *)
(*   predicts = inclusion directives seen).                                *)
(* Files are 1..n.  The set the property demands is recomputed here from   *)
(* the DAG with the operators of DepsRules (InfluencingIn, which MC_Deps   *)
(* proves equal to the include-stack machine's `read`).                    *)
(* Property: inputs \cup deps = that set (missing / extra are violations), *)
(* and the dep-file lists the same files.  Multiplicities are shape.       *)
(***************************************************************************)
EXTENDS DepsRules, Json, IOUtils

Rec == ndJsonDeserialize(IOEnv.TRACE)

VARIABLES l, viol, drift
tvars == <<l, viol, drift>>
TInit == l = 1 /\ viol = <<>> /\ drift = <<>>
Cap(s, x) == IF Len(s) < 300 THEN Append(s, x) ELSE s
Occ(s, x) == Cardinality({i \in DOMAIN s : s[i] = x})

Consume ==
  /\ l <= Len(Rec)
  /\ LET e == Rec[l]
         files == 1..e.n
         lay == [dir |-> e.dir, name |-> e.name]
         want == InfluencingIn(lay, e.path, files, 0, e.content, Range(e.starts), e.n)
         opt == Range(e.optional)
         got == Range(e.deps) \cup Range(e.inputs)
         missing == (want \ got) \ opt
         extra == got \ want
         listed == Range(e.reported)
         disagree == ((listed \ got) \cup (got \ listed)) \ opt
         shape == {f \in files : Occ(e.deps, f) # e.model_deps[f]}
     IN /\ viol' = IF missing = {} /\ extra = {} /\ disagree = {} THEN viol
                   ELSE Cap(viol, [case |-> e.case, ch |-> e.ch, missing |-> missing, extra |-> extra,
                                   disagree |-> disagree])
        /\ drift' = IF shape = {} \/ missing # {} \/ extra # {} THEN drift
                    ELSE Cap(drift, [case |-> e.case, ch |-> e.ch, files |-> shape])
  /\ l' = l + 1
TSpec == TInit /\ [][Consume]_tvars

Accepted ==
  LET d == TLCGet("stats").diameter IN
  IF d - 1 = Len(Rec) THEN TRUE
  ELSE /\ PrintT(<<"REJECTED", ToJson([at |-> d])>>) /\ FALSE
TDone == l = Len(Rec) + 1
Report == TDone => /\ PrintT(<<"VIOL", ToJson(viol)>>) /\ PrintT(<<"DRIFT", ToJson(drift)>>)
                   /\ PrintT(<<"COUNT", ToJson([n |-> Len(Rec)])>>)
=============================================================================
