------------------------------ MODULE Options ------------------------------
(***************************************************************************)
(* C13 - builder configuration and command-line flags round-trip.          *)
(*                                                                         *)
(* The option universe is read from $OPTIONS (JSON written by              *)
(* lib/checks/c13.py from `bvdrive roundtrip table`, i.e. from the table   *)
(* that drives the real bindgen::Builder): one row per BindgenOptions      *)
(* field with its class                                                    *)
(*   bool      default, flag, polarity (flag_value), setter takes a bool   *)
(*             or is a one-way switch; `always` = both polarities emitted  *)
(*   list      RegexSet / Vec<String>: ordered, duplicates kept            *)
(*   optstr    Option<String | PathBuf>                                    *)
(*   str       String with a default (flag only when different)            *)
(*   enum      enumerated value, flag only when different from the default *)
(*   map       map of lists (module_raw_line: 2 values; override_abi:      *)
(*             REGEX=ABI)                                                  *)
(*   triples   --field-attr TYPE::FIELD=ATTR                               *)
(*   headers / clang_args   the header ordering convention                 *)
(*   codegen   CodegenConfig bit set (--generate a,b,c + --ignore-x)       *)
(*   target / edition                                                      *)
(*   depfile                                                               *)
(* (class nocli rows are not modelled: documented as not expressible).     *)
(*                                                                         *)
(* State: the abstract configuration `cfg` and the setter history `hist`.  *)
(* Actions: one builder setter call.  ToFlags / FromFlags are functions;   *)
(* FromFlags is a token-level model of the clap front end + apply_args.    *)
(* Ideal = TRUE  : L1, an ideal front end (any value accepted, injective   *)
(*                 rendering): the laws must hold on the whole universe.   *)
(* Ideal = FALSE : L2, the front end as built (a value that starts with    *)
(*                 `-` is taken for a flag, Display of enum values,        *)
(*                 `--generate` of the empty set, fixed application order  *)
(*                 with the rustfmt-configuration-file => formatter        *)
(*                 coupling, TYPE::FIELD=ATTR splitting).  Law failures    *)
(*                 are predictions, replayed on the real code.             *)
(***************************************************************************)
EXTENDS Naturals, Sequences, FiniteSets, TLC, Json, IOUtils

CONSTANTS Ideal,        \* BOOLEAN
          Mode,         \* "single" | "pairs" | "seq" | "sim"
          MaxLen,       \* bound on Len(hist)
          Mutation      \* "none" or the name of a broken mechanism (sensitivity)

U == JsonDeserialize(IOEnv.OPTIONS)
Range(s) == {s[i] : i \in DOMAIN s}
Rows == U.rows
RowIdx == DOMAIN Rows
Strs == Range(U.strs)
Dash(s) == s \in Range(U.dash)
HasEq(s) == s \in Range(U.eq)
HasColons(s) == s \in Range(U.colons)
SeqRows == Range(U.seqrows)          \* fields used in Mode "seq"
Field(i) == Rows[i].field
Class(i) == Rows[i].class
IdxOf(f) == CHOOSE i \in RowIdx : Rows[i].field = f

None == <<>>                          \* Option::None; Some(x) = <<x>>

(***************************************************************************)
(* Defaults (BindgenOptions::default)                                      *)
(***************************************************************************)
DefaultOf(i) ==
    CASE Class(i) = "bool" -> Rows[i].default
      [] Class(i) \in {"list", "headers", "clang_args", "map", "triples"} -> <<>>
      [] Class(i) \in {"optstr", "edition", "depfile"} -> None
      [] Class(i) \in {"str", "enum"} -> Rows[i].default
      [] Class(i) = "codegen" -> Range(Rows[i].bits)
      [] Class(i) = "target" -> <<"stable", U.latest, 0>>
Default == [i \in RowIdx |-> DefaultOf(i)]

(***************************************************************************)
(* Setters: [i, op, args]                                                  *)
(***************************************************************************)
BoolVals(i) == IF Rows[i].arg = "bool" THEN {TRUE, FALSE} ELSE {Rows[i].flag_value}
Keys(i) == Range(Rows[i].keys)
Targets == {<<"stable", 51, 0>>, <<"stable", 77, 5>>, <<"stable", U.latest, 0>>, <<"stable", 90, 0>>, <<"nightly", 0, 0>>}
Subsets(i) == {Range(x) : x \in Range(Rows[i].subsets)}
ValuesOf(i) == Range(Rows[i].values)

SettersOf(i) ==
    CASE Class(i) = "bool" -> {<<i, "set", b>> : b \in BoolVals(i)}
      [] Class(i) = "list" -> {<<i, "push", s>> : s \in Strs}
      [] Class(i) = "optstr" -> {<<i, "set", s>> : s \in (IF Rows[i].kind = "abspath" THEN Range(U.abspaths) ELSE Strs)}
      [] Class(i) = "str" -> {<<i, "set", s>> : s \in Strs}
      [] Class(i) = "enum" -> {<<i, "set", v>> : v \in ValuesOf(i)}
      [] Class(i) = "map" -> {<<i, "push", <<k, s>> >> : k \in Keys(i), s \in Strs \cup Range(Rows[i].extra)}
      [] Class(i) = "triples" -> {<<i, "push", <<t, f, U.attrs[1]>> >> : t \in Range(U.tstrs), f \in Range(U.tstrs)}
                                 \* fields that exist in the header x attributes with '=' and quotes inside
                                 \cup {<<i, "push", <<p[1], p[2], a>> >> : p \in Range(U.tpairs), a \in Range(U.attrs)}
      [] Class(i) = "headers" -> {<<i, "push", h>> : h \in Range(U.headers)}
      [] Class(i) = "clang_args" -> {<<i, "push", a>> : a \in Range(U.clang)}
      [] Class(i) = "codegen" -> {<<i, "set", s>> : s \in Subsets(i)} \cup {<<i, "ignore", "functions">>, <<i, "ignore", "methods">>}
      [] Class(i) = "target" -> {<<i, "set", t>> : t \in Targets}
      [] Class(i) = "edition" -> {<<i, "set", e>> : e \in ValuesOf(i)}
      [] Class(i) = "depfile" -> {<<i, "set", <<"mod", p>> >> : p \in Range(U.depfiles)}

FormatterIdx == IdxOf("formatter")
(* documented couplings of setters (L2 only; the ideal builder of L1 has independent setters):   *)
(* derive_ord(b) also sets derive_partialord = b; derive_eq(true) also sets derive_partialeq;     *)
(* derive_partialord(false) clears derive_ord; derive_partialeq(false) clears derive_eq;          *)
(* wasm_import_module_name(n) pushes #[link(wasm_import_module = "n")] on extern_fn_block_attrs   *)
SetBool(c, i, v) ==
    LET c1 == [c EXCEPT ![i] = v] IN
    IF Ideal \/ Rows[i].also = <<>> THEN c1
    ELSE LET j == IdxOf(Rows[i].also[1]) IN
         CASE Rows[i].also[2] = "any" -> [c1 EXCEPT ![j] = v]
           [] Rows[i].also[2] = "true" -> IF v THEN [c1 EXCEPT ![j] = TRUE] ELSE c1
           [] Rows[i].also[2] = "false" -> IF v THEN c1 ELSE [c1 EXCEPT ![j] = FALSE]
WasmAttr(x) == (CHOOSE p \in Range(U.wasm) : p[1] = x)[2]
SetOpt(c, i, x) ==
    IF Rows[i].kind = "wasm" /\ ~Ideal THEN [c EXCEPT ![IdxOf("extern_fn_block_attrs")] = Append(@, WasmAttr(x))]
    ELSE IF Rows[i].kind = "abspath" THEN [c EXCEPT ![i] = <<x>>, ![FormatterIdx] = "rustfmt"]   \* documented coupling
    ELSE [c EXCEPT ![i] = <<x>>]
Apply(c, s) ==
    LET i == s[1] op == s[2] a == s[3] IN
    CASE op = "set" /\ Class(i) = "bool" -> SetBool(c, i, a)
      [] op = "set" /\ Class(i) = "optstr" -> SetOpt(c, i, a)
      [] op = "set" /\ Class(i) \in {"edition", "depfile"} -> [c EXCEPT ![i] = <<a>>]
      [] op = "set" -> [c EXCEPT ![i] = a]
      [] op = "push" /\ Class(i) = "map" -> [c EXCEPT ![i] = Append(@, a)]   \* kept as insertion list, read per key
      [] op = "push" -> [c EXCEPT ![i] = Append(@, a)]
      [] op = "ignore" -> [c EXCEPT ![i] = @ \ {a}]

(***************************************************************************)
(* ToFlags: tokens are tuples  <<"flag", name>>  <<"val", s>>              *)
(*   <<"kv", regex, abi>>  <<"fa", type, field, attr>>  <<"csv", set>>     *)
(*   <<"tgt", kind, minor, patch>>                                         *)
(***************************************************************************)
Fl(n) == <<"flag", n>>
Val(s) == <<"val", s>>
RECURSIVE Flat(_)
Flat(ss) == IF ss = <<>> THEN <<>> ELSE Head(ss) \o Flat(Tail(ss))
MapKeysInOrder(i, v) ==   \* iteration order of the map: a function of its key set (table order of the keys)
    SelectSeq(Rows[i].keys, LAMBDA k : \E j \in DOMAIN v : v[j][1] = k)
MapList(v, k) == SelectSeq(v, LAMBDA p : p[1] = k)
Display(i, v) == IF \E j \in DOMAIN Rows[i].display : Rows[i].display[j][1] = v
                 THEN (CHOOSE p \in Range(Rows[i].display) : p[1] = v)[2] ELSE v
ShownEnum(i, v) == IF Ideal THEN v ELSE Display(i, v)

FieldFlags(i, v) ==
    CASE Class(i) = "bool" ->
            IF Rows[i].always
            THEN << Fl(IF v = Rows[i].flag_value THEN Rows[i].flag ELSE Rows[i].negflag) >>
            ELSE IF Mutation = "polarity" /\ ~Rows[i].flag_value
                 THEN (IF v THEN << Fl(Rows[i].flag) >> ELSE <<>>)          \* broken: negative flag when true
                 ELSE (IF v = Rows[i].flag_value THEN << Fl(Rows[i].flag) >> ELSE <<>>)
      [] Class(i) = "list" ->
            IF Mutation = "dropSecond" /\ Len(v) > 1 THEN << Fl(Rows[i].flag), Val(v[1]) >>
            ELSE Flat([j \in DOMAIN v |-> << Fl(Rows[i].flag), Val(v[j]) >>])
      [] Class(i) \in {"optstr"} -> IF v = None THEN <<>> ELSE << Fl(Rows[i].flag), Val(v[1]) >>
      [] Class(i) = "depfile" -> IF v = None THEN <<>> ELSE << Fl(Rows[i].flag), Val(v[1][2]) >>
      [] Class(i) = "edition" -> IF v = None THEN <<>> ELSE << Fl(Rows[i].flag), Val(v[1]) >>
      [] Class(i) = "str" -> IF v = Rows[i].default THEN <<>> ELSE << Fl(Rows[i].flag), Val(v) >>
      [] Class(i) = "enum" -> IF v = Rows[i].default THEN <<>> ELSE << Fl(Rows[i].flag), Val(ShownEnum(i, v)) >>
      [] Class(i) = "map" ->
            LET ks == MapKeysInOrder(i, v) IN
            Flat([n \in DOMAIN ks |->
                LET l == MapList(v, ks[n]) IN
                IF Mutation = "mapFirstOnly" /\ Len(l) > 1
                THEN << Fl(Rows[i].flag), <<"kv", l[1][2], ks[n]>> >>
                ELSE Flat([j \in DOMAIN l |->
                    IF Rows[i].shape = "two_values"
                    THEN << Fl(Rows[i].flag), Val(ks[n]), Val(l[j][2]) >>
                    ELSE << Fl(Rows[i].flag), <<"kv", l[j][2], ks[n]>> >>])])
      [] Class(i) = "triples" -> Flat([j \in DOMAIN v |-> << Fl(Rows[i].flag), <<"fa", v[j][1], v[j][2], v[j][3]>> >>])
      [] Class(i) = "codegen" ->
            (IF "functions" \notin v THEN << Fl("--ignore-functions") >> ELSE <<>>)
            \o << Fl("--generate"), <<"csv", v>> >>
            \o (IF "methods" \notin v THEN << Fl("--ignore-methods") >> ELSE <<>>)
      [] Class(i) = "target" -> << Fl(Rows[i].flag), <<"tgt", v[1], v[2], v[3]>> >>
      [] Class(i) \in {"headers", "clang_args"} -> <<>>       \* handled by the convention below

HeadersIdx == IdxOf("input_headers")
ClangIdx == IdxOf("clang_args")
Includes(hs) == Flat([j \in DOMAIN hs |-> << Val("-include"), Val(hs[j]) >>])
Front(hs) == IF hs = <<>> THEN <<>> ELSE SubSeq(hs, 1, Len(hs) - 1)
ToFlags(c) ==
    LET hs == c[HeadersIdx]
        positional == IF hs = <<>> THEN <<>>
                      ELSE IF Mutation = "firstHeaderPositional" THEN << Val(hs[1]) >> ELSE << Val(hs[Len(hs)]) >>
        rest == IF Mutation = "firstHeaderPositional" THEN (IF hs = <<>> THEN <<>> ELSE Tail(hs)) ELSE Front(hs)
    IN positional
       \o Flat([i \in RowIdx |-> FieldFlags(i, c[i])])
       \o << Fl("--") >>
       \o [j \in DOMAIN c[ClangIdx] |-> Val(c[ClangIdx][j])]
       \o Includes(rest)

(***************************************************************************)
(* FromFlags: clap lexing, then apply_args in its fixed order.             *)
(***************************************************************************)
RowsOfFlag(n) == {i \in RowIdx : Class(i) \notin {"headers", "clang_args", "codegen"} /\
                                 (Rows[i].flag = n \/ (Class(i) = "bool" /\ Rows[i].negflag = n))}
CodegenIdx == IdxOf("codegen_config")
NValues(i) == CASE Class(i) = "bool" -> 0
                [] Class(i) = "map" /\ Rows[i].shape = "two_values" -> 2
                [] OTHER -> 1
(* does clap take this token for a flag?  (first component starts with `-`, longer than `-`) *)
LooksLikeFlag(t) == ~Ideal /\ t[1] \in {"val", "kv", "fa"} /\ Dash(t[2])

(* lex result: [ok, why, header, occ (sequence of <<row, tokens>>), clang] *)
RECURSIVE Lex(_, _, _)
Lex(toks, p, acc) ==
    IF p > Len(toks) THEN acc
    ELSE LET t == toks[p] IN
    IF t[1] # "flag"
    THEN \* a positional: the header (only the first one; ToFlags emits exactly one before `--`)
         IF LooksLikeFlag(t) THEN [acc EXCEPT !.ok = FALSE, !.why = "dash-header"]
         ELSE Lex(toks, p + 1, [acc EXCEPT !.header = Append(@, t[2])])
    ELSE IF t[2] = "--"
    THEN \* everything after `--` is positional: header first if none was seen, then clang args
         LET rest == [j \in 1..(Len(toks) - p) |-> toks[p + j][2]] IN
         IF acc.header = <<>> /\ rest # <<>>
         THEN [acc EXCEPT !.header = <<rest[1]>>, !.clang = Tail(rest)]
         ELSE [acc EXCEPT !.clang = rest]
    ELSE IF t[2] \in {"--ignore-functions", "--ignore-methods", "--generate"}
    THEN IF t[2] = "--generate"
         THEN IF p + 1 > Len(toks) THEN [acc EXCEPT !.ok = FALSE, !.why = "missing-value"]
              ELSE IF ~Ideal /\ toks[p + 1][2] = {} THEN [acc EXCEPT !.ok = FALSE, !.why = "empty-generate"]
              ELSE Lex(toks, p + 2, [acc EXCEPT !.occ = Append(@, <<CodegenIdx, <<t, toks[p + 1]>> >>)])
         ELSE Lex(toks, p + 1, [acc EXCEPT !.occ = Append(@, <<CodegenIdx, <<t>> >>)])
    ELSE IF RowsOfFlag(t[2]) = {} THEN [acc EXCEPT !.ok = FALSE, !.why = "unknown-flag"]
    ELSE LET i == CHOOSE r \in RowsOfFlag(t[2]) : TRUE
             n == NValues(i) IN
         IF p + n > Len(toks) THEN [acc EXCEPT !.ok = FALSE, !.why = "missing-value"]
         ELSE IF \E j \in 1..n : toks[p + j][1] = "flag" \/ LooksLikeFlag(toks[p + j])
              THEN [acc EXCEPT !.ok = FALSE, !.why = "dash-value"]
         ELSE Lex(toks, p + n + 1, [acc EXCEPT !.occ = Append(@, <<i, SubSeq(toks, p, p + n)>>)])

(* value parsers of the individual arguments; "misparse" when the text splits differently *)
OccBad(i, ts) ==
    CASE Class(i) = "triples" -> ~Ideal /\ HasEq(ts[2][2])   \* split_once('=') cuts inside TYPE: no `::` left of it
                                 \* ('=' or '::' inside FIELD re-split to another triple that renders to the same text)
      [] OTHER -> FALSE

ApplyOcc(c, o) ==
    LET i == o[1] ts == o[2] IN
    CASE Class(i) = "bool" -> SetBool(c, i, (ts[1][2] = Rows[i].flag) = Rows[i].flag_value)
      [] Class(i) = "list" -> [c EXCEPT ![i] = Append(@, ts[2][2])]
      [] Class(i) = "optstr" -> IF Rows[i].kind = "abspath" THEN [c EXCEPT ![i] = <<ts[2][2]>>] ELSE SetOpt(c, i, ts[2][2])
      [] Class(i) \in {"edition"} -> [c EXCEPT ![i] = <<ts[2][2]>>]
      [] Class(i) = "depfile" -> [c EXCEPT ![i] = << <<"mod", ts[2][2]>> >>]
      [] Class(i) \in {"str", "enum"} -> [c EXCEPT ![i] = ts[2][2]]
      [] Class(i) = "map" -> IF Rows[i].shape = "two_values"
                             THEN [c EXCEPT ![i] = Append(@, <<ts[2][2], ts[3][2]>>)]
                             ELSE [c EXCEPT ![i] = Append(@, <<ts[2][3], ts[2][2]>>)]
      [] Class(i) = "triples" -> [c EXCEPT ![i] = Append(@, <<ts[2][2], ts[2][3], ts[2][4]>>)]
      [] Class(i) = "target" -> [c EXCEPT ![i] = <<ts[2][2], ts[2][3], ts[2][4]>>]
      [] Class(i) = "codegen" ->
            IF ts[1][2] = "--generate" THEN [c EXCEPT ![i] = ts[2][2]]
            ELSE IF ts[1][2] = "--ignore-functions" THEN [c EXCEPT ![i] = @ \ {"functions"}]
            ELSE [c EXCEPT ![i] = @ \ {"methods"}]

RECURSIVE ApplyAll(_, _)
ApplyAll(c, occ) == IF occ = <<>> THEN c ELSE ApplyAll(ApplyOcc(c, Head(occ)), Tail(occ))

(* apply_args order: `generate` before `ignore_*`; everything of one row in command-line order;  *)
(* --rustfmt-configuration-file is applied after the apply_args block, i.e. after --formatter.   *)
RcfIdx == IdxOf("rustfmt_configuration_file")
Phase(o) == IF o[1] = CodegenIdx /\ o[2][1][2] # "--generate" THEN 2
            ELSE IF o[1] = RcfIdx /\ ~Ideal THEN 3 ELSE 1
InPhase(occ, n) == SelectSeq(occ, LAMBDA o : Phase(o) = n)

FromFlags(toks) ==
    LET l == Lex(toks, 1, [ok |-> TRUE, why |-> "", header |-> <<>>, occ |-> <<>>, clang |-> <<>>])
        start == IF Mutation = "defaults" THEN [Default EXCEPT ![IdxOf("layout_tests")] = FALSE] ELSE Default IN
    IF ~l.ok THEN [ok |-> FALSE, why |-> l.why, cfg |-> Default]
    ELSE IF l.header = <<>> THEN [ok |-> FALSE, why |-> "no-header", cfg |-> Default]
    ELSE IF \E j \in DOMAIN l.occ : OccBad(l.occ[j][1], l.occ[j][2]) THEN [ok |-> FALSE, why |-> "misparse", cfg |-> Default]
    ELSE LET c1 == ApplyAll(ApplyAll([start EXCEPT ![HeadersIdx] = l.header, ![ClangIdx] = l.clang], InPhase(l.occ, 1)), InPhase(l.occ, 2))
             rcf == InPhase(l.occ, 3)
             c2 == IF rcf = <<>> THEN c1 ELSE [ApplyAll(c1, rcf) EXCEPT ![FormatterIdx] = "rustfmt"]
         IN [ok |-> TRUE, why |-> "", cfg |-> c2]

(***************************************************************************)
(* Laws                                                                    *)
(***************************************************************************)
(* what clang is finally given: Builder::generate appends -include for all but the last header *)
Effective(c) == << [j \in DOMAIN c[ClangIdx] |-> Val(c[ClangIdx][j])] \o Includes(Front(c[HeadersIdx])),
                   IF c[HeadersIdx] = <<>> THEN None ELSE <<c[HeadersIdx][Len(c[HeadersIdx])]>> >>
MapView(i, v) == [k \in Keys(i) |-> MapList(v, k)]
Equiv(c, d) == /\ Effective(c) = Effective(d)
               /\ \A i \in RowIdx : \/ Class(i) \in {"headers", "clang_args"}
                                    \/ (Class(i) = "map" /\ MapView(i, c[i]) = MapView(i, d[i]))
                                    \/ (Class(i) = "depfile" /\ (c[i] = None) = (d[i] = None)
                                        /\ (c[i] # None => c[i][1][2] = d[i][1][2]))
                                    \/ c[i] = d[i]

RoundTrip(c) == LET r == FromFlags(ToFlags(c)) IN
                IF ~r.ok THEN [ok |-> FALSE, why |-> r.why]
                ELSE IF ~Equiv(r.cfg, c) THEN [ok |-> FALSE, why |-> "config-differs"]
                ELSE IF ToFlags(r.cfg) # ToFlags(c) THEN [ok |-> FALSE, why |-> "flags-differ"]
                ELSE [ok |-> TRUE, why |-> ""]

(***************************************************************************)
(* The machine                                                             *)
(***************************************************************************)
VARIABLES cfg, hist
vars == <<cfg, hist>>

HeaderSetter == <<HeadersIdx, "push", U.headers[1]>>
Init == cfg = Apply(Default, HeaderSetter) /\ hist = <<>>     \* every configuration has the header (b.header(h))

Allowed(s) ==
    CASE Mode = "single" -> TRUE
      [] Mode = "pairs" -> IF Class(s[1]) # "bool" THEN FALSE ELSE IF hist = <<>> THEN TRUE
                           ELSE IF hist[Len(hist)][1] < s[1] THEN TRUE
                           ELSE IF hist[Len(hist)][1] = s[1] THEN FALSE
                           ELSE IF Rows[s[1]].also # <<>> THEN TRUE ELSE Rows[hist[Len(hist)][1]].also # <<>>   \* both orders for coupled setters
      [] Mode \in {"seq", "seqsim"} -> Field(s[1]) \in SeqRows
      [] Mode = "sim" -> IF Class(s[1]) \in {"list", "map", "headers", "clang_args"} THEN TRUE
                         ELSE \A j \in DOMAIN hist : hist[j][1] # s[1]   \* (no disjunction here: TLC would split it as an action)
Step(s) == /\ Len(hist) < MaxLen
           /\ Allowed(s)
           /\ cfg' = Apply(cfg, s)
           /\ hist' = Append(hist, s)
AllSetters == UNION {SettersOf(i) : i \in RowIdx}
(* Modes "sim", "seqsim" (tlc -simulate): one random enabled setter per step instead of all successors *)
NextSim == LET en == {s \in AllSetters : Allowed(s)} IN en # {} /\ Step(RandomElement(en))
Next == IF Mode \in {"sim", "seqsim"} THEN NextSim ELSE \E i \in RowIdx : \E s \in SettersOf(i) : Step(s)
Spec == Init /\ [][Next]_vars

Law == RoundTrip(cfg).ok
DefaultsEqual == hist = <<>> => RoundTrip(cfg).ok /\ FromFlags(ToFlags(cfg)).cfg = cfg

(* behaviour generator: every state reached is a configuration to replay *)
Printable == IF Mode = "pairs" THEN Len(hist) = 2 ELSE IF Mode = "sim" THEN Len(hist) = MaxLen ELSE Len(hist) >= 1
Setter(s) == [field |-> Field(s[1]), op |-> s[2], arg |-> s[3]]
Emit == Printable =>
    PrintT(<<"BEH", ToJson([hist |-> [j \in DOMAIN hist |-> Setter(hist[j])],
                            flags |-> ToFlags(cfg), rt |-> RoundTrip(cfg)])>>)
=============================================================================
