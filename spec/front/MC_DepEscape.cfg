SPECIFICATION Spec
CONSTANTS
  Alphabet <- Alpha7
  Reader = "ref"
  EscVariant = "code"
INVARIANTS RoundTripOK PrintEnv
CHECK_DEADLOCK FALSE
