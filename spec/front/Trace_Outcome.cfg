SPECIFICATION TSpec
CONSTANTS
  Variant = "code"
INVARIANT Report
POSTCONDITION Accepted
CHECK_DEADLOCK FALSE
