SPECIFICATION Spec
CONSTANTS
  N = 4
  SearchPath <- Path2
  Names <- SearchNames
  Forms = {"q", "a"}
  Guards = {"none"}
  Actives = {TRUE}
  DeadNames <- SearchNames
  MaxFan = 2
  Layouts <- SearchLayouts
  RootChoices <- OneRoot
  ArgIncludes <- NoArgInclude
  Variant = "code"
INVARIANTS TypeOK ReadIsInfluencing Exact Complete NothingExtra LinesCover
CHECK_DEADLOCK FALSE
