SPECIFICATION Spec
CONSTANTS
  N = 3
  MaxRefs = 2
  Guard = TRUE
INVARIANTS Emitted Bounded NoDeclTwice
CHECK_DEADLOCK FALSE
