SPECIFICATION Spec
CONSTANTS
    MaxMinor = 88
    TargetRows <- Code_TargetRows
    NightlyRow <- Code_NightlyRow
    EditionRows <- Code_EditionRows
    Compat <- Code_Compat
    LatestEdition <- LatestEdition_first
    Forms <- AllFormsD
INVARIANTS TypeOK FlagSound FlagMonotone EditionRule LatestEditionRule DefaultRule ParseRule ConstructMonotone
CHECK_DEADLOCK FALSE
