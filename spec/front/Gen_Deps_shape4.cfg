SPECIFICATION Spec
CONSTANTS
  N = 4
  SearchPath <- NoPath
  Names <- ShapeNames
  Forms = {"q"}
  Guards = {"none", "guard", "once"}
  Actives = {TRUE, FALSE}
  DeadNames <- LastName
  MaxFan = 2
  Layouts <- ShapeLayouts
  RootChoices <- OneRoot
  ArgIncludes <- NoArgInclude
  Variant = "code"
INVARIANTS Emitted TypeOK ReadIsInfluencing Exact Complete NothingExtra LinesCover
CHECK_DEADLOCK FALSE
