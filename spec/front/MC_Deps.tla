------------------------------ MODULE MC_Deps ------------------------------
(***************************************************************************)
(* Bounded universes for Deps.tla and the behaviour generator (Gen_Deps_*  *)
(* configs print one JSON record per complete behaviour = one include DAG  *)
(* with the predicted read / reported sets and cargo line counts).         *)
(***************************************************************************)
EXTENDS Deps, Json

NameOf(f) == "n" \o ToString(f)

(* shape family: every file in the root's directory, names unique          *)
ShapeNames == {NameOf(f) : f \in 1..(N - 1)}
ShapeLayouts == {[dir |-> [f \in Files |-> "cur"], name |-> [f \in Files |-> NameOf(f)]]}

(* search family: files 1..N-1 placed in cur / inc (-I) / sys (-isystem) under the names x, y: *)
(* shadowing between the includer's directory and the search path, and along the path           *)
SearchNames == {"x", "y"}
SearchLayouts ==
  {l \in [dir : [Files -> {"cur", "inc", "sys"}], name : [Files -> SearchNames \cup {"main"}]] :
     /\ l.dir[0] = "cur" /\ l.name[0] = "main"
     /\ \A f \in Files \ {0} : l.name[f] # "main"
     /\ \A f, g \in Files : f # g => <<l.dir[f], l.name[f]>> # <<l.dir[g], l.name[g]>>
     (* canonical numbering: files sorted by (dir, name) would lose DAG orientations, keep all *)
  }
Path2 == <<"inc", "sys">>
NoPath == <<>>
LastName == {NameOf(N - 1)}

NoArgInclude == {<<>>}
ArgInclude1 == {<<1>>}
OneRoot == {<<0>>}
TwoRoots == {<<0>>, <<1, 0>>}

Emitted == Done => PrintT(<<"DAG", ToJson([L |-> L, roots |-> roots, pre |-> pre, content |-> content,
                                           read |-> read, reported |-> reported, lines |-> lines])>>)
=============================================================================
