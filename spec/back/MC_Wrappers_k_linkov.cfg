SPECIFICATION Spec
CONSTANTS
  K = 1
  Lang = "c"
  WithKeyword = FALSE
  WithLinkOv = TRUE
  Mutation = "none"
INVARIANTS InvNoDangling
CHECK_DEADLOCK FALSE
