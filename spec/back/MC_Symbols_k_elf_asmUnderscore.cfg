SPECIFICATION Spec
CONSTANTS
  Target = "elf"
  K = 1
  AsmUnderscore = TRUE
  SuffixLike = FALSE
  NoMangling = FALSE
  VarLinkOverride = FALSE
  Mutation = "none"
INVARIANTS SymbolsOK
CHECK_DEADLOCK FALSE
