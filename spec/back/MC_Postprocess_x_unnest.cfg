SPECIFICATION Spec
CONSTANTS
  Kinds = {"Struct"}
  Abis = {}
  BAttrs = {"none", "a"}
  FKinds = {"FFn"}
  FAttrs = {"none"}
  MaxForeign = 1
  MaxLen = 2
  MaxInner = 2
  MaxDepth = 2
  MaxNodes = 4
  UnsChoices = {TRUE}
  Uniform = TRUE
  Mutant = "sort_unnest"
  Mode = "mc"
INVARIANTS InvModules
CHECK_DEADLOCK FALSE
