---------------------------- MODULE Trace_Closure ----------------------------
(* Trace validation of name closure: one record per emitted module with the   *)
(* names it defines and the first segments of all paths used in type          *)
(* position (std/core/crate-rooted paths, primitives and generic parameters   *)
(* removed by the projection). Names.tla!Closed must hold.                    *)
EXTENDS Naturals, Sequences, FiniteSets, TLC, Json, IOUtils
Rec == ndJsonDeserialize(IOEnv.TRACE)
VARIABLES l, viol, defsAll
vars == <<l, viol, defsAll>>
Range(s) == {s[i] : i \in DOMAIN s}
Init == l = 1 /\ viol = <<>> /\ defsAll = {}
Closed(defs, uses, allowed) == uses \subseteq (defs \cup allowed)
Next == /\ l <= Len(Rec) /\ l' = l + 1
        /\ LET e == Rec[l]
               defs == Range(e.defs) uses == Range(e.uses) allowed == Range(e.allowed)
               miss == uses \ (defs \cup allowed)
           IN /\ viol' = IF ~Closed(defs, uses, allowed) /\ Len(viol) < 100
                         THEN Append(viol, [case |-> e.case, module |-> e.mod, name |-> CHOOSE x \in miss : TRUE])
                         ELSE viol
              /\ defsAll' = defsAll
Spec == Init /\ [][Next]_vars
Accepted == LET d == TLCGet("stats").diameter IN
  IF d - 1 = Len(Rec) THEN TRUE ELSE PrintT(<<"REJECTED", ToJson([at |-> d])>>) /\ FALSE
Report == (l = Len(Rec) + 1) => PrintT(<<"VIOL", ToJson(viol)>>)
=============================================================================
