SPECIFICATION Spec
CONSTANTS
  NFns = 1
  MinArity = 0
  MaxArity = 0
  Kinds = {"fn"}
  Shapes = {"plain"}
  ArgSet = "all"
  RetSet = "all"
  OptSet = "none"
  FixedToks = FALSE
  Pad = FALSE
INVARIANTS Emitted UniqueIdents PredictedSymbolsOK
CHECK_DEADLOCK FALSE
