--------------------------- MODULE Gen_MacroExpr ---------------------------
(***************************************************************************)
(* Behaviour generator (spec -> impl) for C05: typed C constant            *)
(* expressions as they appear in object-like macro bodies.                 *)
(*                                                                         *)
(* An expression is built top-down in prefix (Polish) notation: `todo` is  *)
(* the list of open holes <<type, remaining depth>>, `out` the symbols     *)
(* written so far.  Each hole is closed in two steps (pick a production    *)
(* class, then its details) so that TLC's simulator, which picks uniformly *)
(* among successor states, does not drown the operators in the hundreds of *)
(* literal forms.  Types: "I" integer (char literals are ints in C),       *)
(* "F" floating, "S" string.                                               *)
(*                                                                         *)
(* For every finished expression the spec prints the symbols together with *)
(* what it predicts: whether bindgen's evaluator grammar (cexpr) covers    *)
(* it, the class of the result and - for integers - the C type by the      *)
(* typing rules of Consts (literal types, promotions, usual arithmetic     *)
(* conversions).  The C probe must observe exactly that type; the renderer *)
(* supplies concrete 64-bit numbers for the symbolic magnitudes.           *)
(***************************************************************************)
EXTENDS Consts, Json

CONSTANTS MaxDepth, Radixes, MagNames, Suffixes, Tops

(* magnitude name -> region; the renderer owns the numbers                  *)
MagRegion == [m \in {"0", "1", "2", "7", "31", "32", "63", "i8max", "i8max+1", "u8max", "u8max+1", "i16max",
                      "i16max+1", "u16max", "u16max+1", "i32max", "i32max+1", "u32max", "u32max+1", "i64max",
                      "i64max+1", "u64max"} |->
  CASE m \in {"0", "1", "2", "7", "31", "32", "63", "i8max"} -> 5
    [] m \in {"i8max+1", "u8max"} -> 6 [] m \in {"u8max+1", "i16max"} -> 7
    [] m \in {"i16max+1", "u16max"} -> 8 [] m \in {"u16max+1", "i32max"} -> 9
    [] m \in {"i32max+1", "u32max"} -> 10 [] m \in {"u32max+1", "i64max"} -> 11
    [] OTHER -> 12]

(* literal tables: name -> does cexpr's literal grammar accept it           *)
Chars == [c \in {"a", "nl", "nul", "x7f", "xff", "o377", "bslash", "quote", "wide_a"} |-> TRUE]
Floats == [f \in {"1.5", "0.1", ".5", "1.", "1e10", "1.5f", "0.1f", "2.5L", "0.1L", "1.5e3", "1e-3", "hex1p3"} |->
             f \notin {"1.5e3", "hex1p3"}]
Strings == [s \in {"abc", "esc", "hexesc", "nulmid", "empty", "utf8", "wide", "u8pfx"} |-> TRUE]
CastTypes == [t \in {"signed char", "unsigned char", "short", "unsigned short", "int", "unsigned int", "long",
                     "unsigned long", "long long", "unsigned long long", "_Bool"} |->
  CASE t = "signed char" -> CTy(8, TRUE) [] t = "unsigned char" -> CTy(8, FALSE) [] t = "_Bool" -> CTy(8, FALSE)
    [] t = "short" -> CTy(16, TRUE) [] t = "unsigned short" -> CTy(16, FALSE)
    [] t = "int" -> CTy(32, TRUE) [] t = "unsigned int" -> CTy(32, FALSE)
    [] t \in {"long", "long long"} -> CTy(64, TRUE) [] OTHER -> CTy(64, FALSE)]
RefTypes == {"i32", "u32", "i64", "u64"}
ArithOps == {"+", "-", "*", "/", "%", "&", "|", "^"}
ShiftOps == {"<<", ">>"}
LogicOps == {"&&", "||", "<", ">", "<=", ">=", "==", "!="}
BinOps == ArithOps \cup ShiftOps \cup LogicOps
FloatOps == {"+", "-", "*", "/"}
CmpOps == {"<", ">", "==", "!="}

Sym(k, a, b, c) == <<k, a, b, c>>

VARIABLES out, todo, cls
vars == <<out, todo, cls>>

Init == /\ out = <<>> /\ cls = ""
        /\ \E t \in Tops : todo = <<<<t, MaxDepth>>>>

Classes(t, d) ==
  CASE t = "I" -> {"int", "chr", "ref"} \cup
                  (IF d > 0 THEN {"un", "bin", "tern", "cast", "sizeofT", "sizeofE", "par", "castif", "cmpf"} ELSE {})
    [] t = "F" -> {"flt", "ref"} \cup (IF d > 0 THEN {"unf", "binf", "binfi", "tern", "castfi", "par"} ELSE {})
    [] t = "S" -> {"str", "ref"} \cup (IF d > 0 THEN {"cat", "par"} ELSE {})

Pick == /\ cls = "" /\ todo # <<>>
        /\ \E c \in Classes(todo[1][1], todo[1][2]) : cls' = c
        /\ UNCHANGED <<out, todo>>

(* close the first hole with symbol s, opening holes hs below it            *)
Close(s, hs) == /\ out' = Append(out, s)
                /\ todo' = hs \o Tail(todo)
                /\ cls' = ""

Detail ==
  /\ cls # "" /\ todo # <<>>
  /\ LET t == todo[1][1]
         d == todo[1][2] - 1
         H(x) == <<x, d>>
     IN CASE cls = "int" -> \E r \in Radixes, m \in MagNames, s \in Suffixes : Close(Sym("int", r, m, s), <<>>)
          [] cls = "chr" -> \E c \in DOMAIN Chars : Close(Sym("chr", c, "", ""), <<>>)
          [] cls = "flt" -> \E f \in DOMAIN Floats : Close(Sym("flt", f, "", ""), <<>>)
          [] cls = "str" -> \E s \in DOMAIN Strings : Close(Sym("str", s, "", ""), <<>>)
          [] cls = "ref" -> IF t = "I" THEN \E rt \in RefTypes : Close(Sym("ref", t, rt, ""), <<>>)
                            ELSE Close(Sym("ref", t, "", ""), <<>>)
          [] cls = "un" -> \E o \in {"-", "~", "!", "+"} : Close(Sym("un", o, "", ""), <<H("I")>>)
          [] cls = "bin" -> \E o \in BinOps : Close(Sym("bin", o, "", ""), <<H("I"), H("I")>>)
          [] cls = "tern" -> Close(Sym("tern", t, "", ""), <<H("I"), H(t), H(t)>>)
          [] cls = "cast" -> \E c \in DOMAIN CastTypes : Close(Sym("cast", c, "", ""), <<H("I")>>)
          [] cls = "sizeofT" -> \E c \in DOMAIN CastTypes : Close(Sym("sizeofT", c, "", ""), <<>>)
          [] cls = "sizeofE" -> Close(Sym("sizeofE", "", "", ""), <<H("I")>>)
          [] cls = "par" -> Close(Sym("par", t, "", ""), <<H(t)>>)
          [] cls = "castif" -> Close(Sym("castif", "int", "", ""), <<H("F")>>)
          [] cls = "cmpf" -> \E o \in CmpOps : Close(Sym("cmpf", o, "", ""), <<H("F"), H("F")>>)
          [] cls = "unf" -> Close(Sym("unf", "-", "", ""), <<H("F")>>)
          [] cls = "binf" -> \E o \in FloatOps : Close(Sym("binf", o, "", ""), <<H("F"), H("F")>>)
          [] cls = "binfi" -> \E o \in FloatOps : Close(Sym("binfi", o, "", ""), <<H("F"), H("I")>>)
          [] cls = "castfi" -> Close(Sym("castfi", "double", "", ""), <<H("I")>>)
          [] cls = "cat" -> Close(Sym("cat", "", "", ""), <<H("S"), H("S")>>)

Next == Pick \/ Detail
Spec == Init /\ [][Next]_vars
Done == todo = <<>> /\ out # <<>>

(***************************************************************************)
(* Predictions                                                             *)
(***************************************************************************)
Arity(s) == CASE s[1] \in {"int", "chr", "flt", "str", "ref", "sizeofT"} -> 0
              [] s[1] \in {"un", "cast", "sizeofE", "par", "castif", "unf", "castfi"} -> 1
              [] s[1] = "tern" -> 3
              [] OTHER -> 2

(* Which part of the evaluator's grammar (cexpr 0.6) a node belongs to:      *)
(*   "num"  numeric expression: Int/Float literal, identifier, unary + - ~,  *)
(*          * / % + - << >> & ^ |, parentheses around a numeric expression   *)
(*   "chr"  a character literal (not numeric for cexpr: only usable alone)   *)
(*   "cat"  string literals / identifiers written next to each other         *)
(*   "top"  parentheses around chr / cat / top (only usable alone)           *)
(*   "no"   outside the grammar: ! && || comparisons ?: casts sizeof         *)
Gram(s, a) ==
  CASE s[1] = "int" -> "num"
    [] s[1] = "flt" -> IF Floats[s[2]] THEN "num" ELSE "no"
    [] s[1] = "chr" -> IF Chars[s[2]] THEN "chr" ELSE "no"
    [] s[1] = "str" -> IF Strings[s[2]] THEN "cat" ELSE "no"
    [] s[1] = "ref" -> IF s[2] = "S" THEN "cat" ELSE "num"
    [] s[1] = "un" -> IF s[2] \in {"-", "~", "+"} /\ a[1].g = "num" THEN "num" ELSE "no"
    [] s[1] = "bin" -> IF s[2] \in ArithOps \cup ShiftOps /\ a[1].g = "num" /\ a[2].g = "num" THEN "num" ELSE "no"
    [] s[1] = "unf" -> IF a[1].g = "num" THEN "num" ELSE "no"
    [] s[1] \in {"binf", "binfi"} -> IF a[1].g = "num" /\ a[2].g = "num" THEN "num" ELSE "no"
    [] s[1] = "par" -> IF a[1].g = "num" THEN "num" ELSE IF a[1].g \in {"chr", "cat", "top"} THEN "top" ELSE "no"
    [] s[1] = "cat" -> IF a[1].g = "cat" /\ a[2].g = "cat" THEN "cat" ELSE "no"
    [] OTHER -> "no"

IntT == CTy(32, TRUE)
RefT(n) == CASE n = "i32" -> CTy(32, TRUE) [] n = "u32" -> CTy(32, FALSE) [] n = "i64" -> CTy(64, TRUE) [] OTHER -> CTy(64, FALSE)
V(c, ty) == [cls |-> c, ty |-> ty, g |-> ""]
NoT == CTy(0, FALSE)
(* the value class and C type of one node given its operands                *)
Node(s, a) ==
  CASE s[1] = "int" -> V("I", LitType(s[2], MagRegion[s[3]], s[4]))
    [] s[1] = "chr" -> V("I", IntT)
    [] s[1] = "flt" -> V("F", NoT)
    [] s[1] = "str" -> V("S", NoT)
    [] s[1] = "ref" -> IF s[2] = "I" THEN V("I", RefT(s[3])) ELSE V(s[2], NoT)
    [] s[1] = "un" -> IF s[2] = "!" THEN V("I", IntT) ELSE V("I", Promote(a[1].ty))
    [] s[1] = "bin" -> IF s[2] \in LogicOps THEN V("I", IntT)
                       ELSE IF s[2] \in ShiftOps THEN V("I", Promote(a[1].ty))
                       ELSE V("I", Usual(a[1].ty, a[2].ty))
    [] s[1] = "tern" -> IF s[2] = "I" THEN V("I", Usual(a[2].ty, a[3].ty)) ELSE V(s[2], NoT)
    [] s[1] = "cast" -> V("I", CastTypes[s[2]])
    [] s[1] \in {"sizeofT", "sizeofE"} -> V("I", CTy(64, FALSE))
    [] s[1] = "par" -> a[1]
    [] s[1] = "castif" -> V("I", IntT)
    [] s[1] = "cmpf" -> V("I", IntT)
    [] s[1] \in {"unf", "binf", "binfi", "castfi"} -> V("F", NoT)
    [] s[1] = "cat" -> V("S", NoT)

(* evaluate the prefix sequence right to left with a stack                  *)
Result(seq) ==
  LET RECURSIVE Go(_, _)
      Go(i, stack) ==
        IF i = 0 THEN stack[1]
        ELSE LET s == seq[i]
                 n == Arity(s)
                 args == SubSeq(stack, 1, n)
             IN Go(i - 1, <<[Node(s, args) EXCEPT !.g = Gram(s, args)]>> \o SubSeq(stack, n + 1, Len(stack)))
  IN Go(Len(seq), <<>>)

(* a character literal, possibly inside parentheses                          *)
IsCharLit(seq) == seq[Len(seq)][1] = "chr" /\ \A i \in 1..(Len(seq) - 1) : seq[i][1] = "par"
Rec == LET r == Result(out) IN
       [seq |-> out, supported |-> r.g # "no",
        rcls |-> IF IsCharLit(out) THEN "C" ELSE r.cls,
        w |-> r.ty.w, s |-> r.ty.s]
Emitted == Done => PrintT(<<"EXPR", ToJson(Rec)>>)
(* well-formedness of what is generated: the holes were typed consistently  *)
WellTyped == Done => Result(out).cls \in {"I", "F", "S"}
=============================================================================
