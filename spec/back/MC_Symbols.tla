----------------------------- MODULE MC_Symbols -----------------------------
(***************************************************************************)
(* Bounded model of C04's symbol sub-claims: every sequence of up to K     *)
(* declarations of one module, drawn from a universe of name shapes x      *)
(* symbol sources x calling conventions for one object format, is pushed   *)
(* through the code-generation step of Symbols.tla.                        *)
(*   SymbolsOK    : the linker-visible name of every emitted Rust item =   *)
(*                  the compiler's symbol (or the user's link-name).       *)
(*   UniqueIdents : no two emitted items of the module share a Rust name.  *)
(*   NoLoss       : a declaration is skipped only for a stated reason.     *)
(* Switches (cfg): the shapes AsmUnderscore / SuffixLike / NoMangling /    *)
(* VarLinkOverride are knowingly outside what the code handles; configs    *)
(* that enable them must produce a counterexample, which the check then    *)
(* replays on the real bindgen (known findings).  Mutations (Mutation #    *)
(* "none") remove one mechanism of the code: sensitivity self-tests.       *)
(***************************************************************************)
EXTENDS Symbols, TLC

CONSTANTS Target,          \* "elf" | "macho" | "win32"
          K,               \* declarations per module
          AsmUnderscore,   \* include `int f(void) __asm__("_f")` / prefix-stripping renames of `_f`
          SuffixLike,      \* include a function literally named f1 next to overloads of f
          NoMangling,      \* include --distrust-clang-mangling (mangled_name = None)
          VarLinkOverride, \* include link-name overrides on variables
          Mutation         \* "none" | "noKeywordLink" | "noOverloadSuffix" | "noSeen" | "mangleVerbatim"

F == <<"f">>
KW == <<"f", "n">>
DL == <<"f", "$">>
F1 == <<"f", "1">>
UF == <<"_", "f">>
G == <<"g">>
V == <<"v">>          \* C has one namespace for functions and objects: disjoint names
VKW == <<"i", "n">>
VDL == <<"v", "$">>

Abis == IF Target = "win32" THEN {"C", "stdcall", "fastcall"} ELSE {"C"}
ArgBytes == IF Target = "win32" THEN {0, 4, 12} ELSE {0}

CxxSym(n, sig) == (IF Target = "macho" THEN <<"_">> ELSE <<>>) \o <<"_", "Z", "1">> \o n \o <<sig>>

Fn(name, csym, mangled, linkov, abi, ab) ==
  [kind |-> "fn", name |-> name, csym |-> csym, mangled |-> mangled, linkov |-> linkov, abi |-> abi,
   argbytes |-> ab, variadic |-> FALSE, internal |-> FALSE, mkind |-> "fn", template |-> FALSE]

PlainC == { Fn(n, PlatformMangle(Target, a, n, b, FALSE), PlatformMangle(Target, a, n, b, FALSE), None, a, b) :
              n \in {F, KW, DL, UF} \cup (IF SuffixLike THEN {F1} ELSE {}), a \in Abis, b \in ArgBytes }
Cxx == { Fn(n, CxxSym(n, s), CxxSym(n, s), None, "C", 0) : n \in {F, KW}, s \in {"i", "d"} }
(* generated_name_override strips the prefix `p_` : the C function is p_f, the Rust name f *)
Renamed == { Fn(n, PlatformMangle(Target, "C", <<"p", "_">> \o n, 0, FALSE),
                PlatformMangle(Target, "C", <<"p", "_">> \o n, 0, FALSE), None, "C", 0) : n \in {G, KW} }
(* generated_link_name_override: q_<name> *)
LinkOv == { Fn(n, PlatformMangle(Target, "C", n, 0, FALSE), PlatformMangle(Target, "C", n, 0, FALSE),
               <<"q", "_">> \o n, "C", 0) : n \in {G} }
(* asm label / prefix stripping that leaves `_` + name as the symbol (ELF only: verified shape) *)
AsmU == IF AsmUnderscore /\ Target = "elf"
          THEN { Fn(G, <<"_">> \o G, <<"_">> \o G, None, "C", 0) } ELSE {}
AsmOther == IF Target = "elf" THEN { Fn(G, <<"x", "g">>, <<"x", "g">>, None, "C", 0) } ELSE {}
NoMang == IF NoMangling
            THEN { Fn(n, PlatformMangle(Target, "C", n, 0, FALSE), None, None, "C", 0) : n \in {F, KW} } ELSE {}
Skipped == { [Fn(G, G, G, None, "C", 0) EXCEPT !.mkind = "pure_virtual"],
             [Fn(G, G, G, None, "C", 0) EXCEPT !.template = TRUE],
             [Fn(G, G, G, None, "C", 0) EXCEPT !.internal = TRUE],
             [Fn(G, G, G, None, "vectorcall", 0) EXCEPT !.variadic = FALSE] }

Var(name, csym, mangled, linkov, const) ==
  [kind |-> "var", name |-> name, csym |-> csym, mangled |-> mangled, linkov |-> linkov,
   const |-> const, template |-> FALSE]
Vars == { Var(n, PlatformMangleVar(Target, n), PlatformMangleVar(Target, n), None, c) :
            n \in {V, VKW, VDL}, c \in BOOLEAN }
        \cup (IF VarLinkOverride
                THEN { Var(V, PlatformMangleVar(Target, V), PlatformMangleVar(Target, V), <<"q", "_">> \o V, FALSE) }
                ELSE {})
        \cup (IF AsmUnderscore /\ Target = "elf" THEN { Var(V, <<"_">> \o V, <<"_">> \o V, None, FALSE) } ELSE {})

Universe == PlainC \cup Cxx \cup Renamed \cup LinkOv \cup AsmU \cup AsmOther \cup NoMang \cup Skipped \cup Vars

Opt == [wrapStatic |-> FALSE, suffix |-> <<>>, abiOverride |-> <<>>]

VARIABLES seen, vseen, ovl, out, n
vars == <<seen, vseen, ovl, out, n>>

Init == seen = {} /\ vseen = {} /\ ovl = <<>> /\ out = {} /\ n = 0

(* the mutated step: one mechanism of the code removed *)
MutFn(d, r) ==
  CASE Mutation = "noKeywordLink" /\ r.emitted /\ d.name \in Keywords -> [r EXCEPT !.link = NoLink]
    [] Mutation = "noOverloadSuffix" /\ r.emitted -> [r EXCEPT !.ident = RustMangle(RustMangle(d.name))]
    [] Mutation = "mangleVerbatim" /\ r.emitted /\ r.link.kind = "verbatim" -> [r EXCEPT !.link = Mangled(r.link.name)]
    [] OTHER -> r

Step(d) ==
  /\ n < K /\ n' = n + 1
  /\ IF d.kind = "fn"
       THEN LET r0 == FnStep(d, Opt, IF Mutation = "noSeen" THEN {} ELSE seen, ovl)
                r == MutFn(d, r0) IN
            /\ seen' = r.seen /\ ovl' = r.ovl /\ UNCHANGED vseen
            /\ out' = IF r.emitted THEN out \cup {[d |-> d, r |-> r, at |-> n]} ELSE out
       ELSE LET r == VarStep(d, vseen) IN
            /\ vseen' = r.vseen /\ UNCHANGED <<seen, ovl>>
            /\ out' = IF r.emitted THEN out \cup {[d |-> d, r |-> r, at |-> n]} ELSE out

Next == \E d \in Universe : Step(d)
Spec == Init /\ [][Next]_vars

SymbolsOK == \A e \in out :
  IF e.d.kind = "fn" THEN FnSymbolOK(Target, e.d, e.r) ELSE VarSymbolOK(Target, e.d, e.r)

(* functions and statics share the value namespace of the module *)
UniqueIdents == \A e1, e2 \in out : e1.r.ident = e2.r.ident => e1 = e2

(* two distinct compiler symbols never collapse into one binding, a symbol is bound at most once *)
OneBindingPerSymbol == \A e1, e2 \in out :
  (e1.d.kind = "fn" /\ e2.d.kind = "fn" /\ e1.d.csym = e2.d.csym /\ e1.d.linkov = e2.d.linkov) => e1 = e2

(* link_name is present iff the platform mangling of the identifier differs (minimality) *)
LinkNameIff == \A e \in out : e.d.kind = "fn" /\ e.d.linkov = None =>
  (e.r.link = NoLink <=> PlatformMangle(Target, e.r.abi, e.r.ident, e.d.argbytes, FALSE) = e.d.csym)
=============================================================================
