SPECIFICATION Spec
CONSTANTS
  Target = "elf"
  K = 1
  AsmUnderscore = FALSE
  SuffixLike = FALSE
  NoMangling = FALSE
  VarLinkOverride = FALSE
  Mutation = "noKeywordLink"
INVARIANTS SymbolsOK
CHECK_DEADLOCK FALSE
