SPECIFICATION Spec
CONSTANTS
  Target = "elf"
  K = 1
  AsmUnderscore = FALSE
  SuffixLike = FALSE
  NoMangling = FALSE
  VarLinkOverride = TRUE
  Mutation = "none"
INVARIANTS SymbolsOK
CHECK_DEADLOCK FALSE
