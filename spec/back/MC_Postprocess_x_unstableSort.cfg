SPECIFICATION Spec
CONSTANTS
  Kinds = {"Struct"}
  Abis = {"C", "system"}
  BAttrs = {"none", "a"}
  FKinds = {"FFn"}
  FAttrs = {"none"}
  MaxForeign = 1
  MaxLen = 3
  MaxInner = 2
  MaxDepth = 0
  MaxNodes = 4
  UnsChoices = {TRUE}
  Uniform = TRUE
  Mutant = "unstable_sort"
  Mode = "mc"
INVARIANTS InvKindOrder
CHECK_DEADLOCK FALSE
