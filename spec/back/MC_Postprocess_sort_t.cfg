SPECIFICATION Spec
CONSTANTS
  Kinds = {"Type", "Struct", "Const", "Fn", "Enum", "Union", "Static", "Impl", "Use"}
  Abis = {"C"}
  BAttrs = {"none"}
  FKinds = {"FFn"}
  FAttrs = {"none"}
  MaxForeign = 1
  MaxLen = 5
  MaxInner = 2
  MaxDepth = 1
  MaxNodes = 5
  UnsChoices = {TRUE}
  Uniform = TRUE
  Mutant = "none"
  Mode = "mc"
INVARIANTS InvItems InvModules InvMergeKey InvKindOrder InvIdempotent InvApply InvUniform
CHECK_DEADLOCK FALSE
