SPECIFICATION Spec
CONSTANTS
  Target = "macho"
  NoMangling = FALSE
INVARIANT Emitted
CHECK_DEADLOCK FALSE
