------------------------------ MODULE Formatter ------------------------------
(***************************************************************************)
(* C15: the external-formatter protocol of `Bindings::format_tokens` and   *)
(* the fallback of `Bindings::write` (/repo/bindgen/lib.rs).               *)
(*                                                                         *)
(* Three processes: the parent (the thread calling `write`), the writer    *)
(* thread (`write_all(source)` into the child's stdin, result ignored) and *)
(* the child (the formatter).  Two pipes of capacity k chunks, each end    *)
(* closable on its own: stdin (writer -> child) and stdout (child ->       *)
(* parent).  The source is s chunks.                                       *)
(*                                                                         *)
(* The child is ANY finite script over                                     *)
(*   read | wv (write a valid chunk) | wi (write a chunk that is not       *)
(*   UTF-8) | cin (close stdin) | cout (close stdout)                      *)
(* ended by exit(c), c in {0,1,2,3,101,255}, or by a signal; or the spawn  *)
(* fails (absent path, directory, file that is not executable).            *)
(*                                                                         *)
(* Parent, exactly as the code:                                            *)
(*   spawn -> start writer thread -> drain child's stdout to EOF -> wait   *)
(*   -> join writer -> triage by (utf-8?, exit code):                      *)
(*      utf-8 /\ code in {0,3} => Formatted (the child's output)           *)
(*      ~utf-8                 => Source    (Ok(source))                   *)
(*      otherwise              => Err, and `write` falls back to the       *)
(*                                unformatted tokens (Fallback)            *)
(*                                                                         *)
(* Boundary of the claim (assumptions):                                    *)
(*  * a child that REPORTS SUCCESS (exit 0/3, valid UTF-8) is trusted      *)
(*    whatever it printed, also after closing stdin early;                 *)
(*  * a child that never exits is outside the claim (terminator "hang",    *)
(*    only in MC_Formatter_childNeverExits.cfg, which must deadlock);      *)
(*    grandchildren that keep the pipes open are not modelled;             *)
(*  * the sink given to `write` does not fail (a Vec).                     *)
(*                                                                         *)
(* Mode selects the parent: "thread" is the code; "noThread" (stdin is     *)
(* written completely before stdout is drained), "waitBeforeDrain" and     *)
(* "propagateErr" (`?` instead of the fallback) are the mutants of the     *)
(* sensitivity configurations and MUST fail.                               *)
(***************************************************************************)
EXTENDS Naturals, Sequences, FiniteSets, TLC, FormatterRules

CONSTANTS Ks,          \* pipe capacities explored
          Ss,          \* source sizes (chunks) explored
          MaxLen,      \* longest script, terminator included
          Terms,       \* terminators explored
          SpawnKinds,  \* {"ok", "absent", "dir", "noexec"}
          Mode,
          Scripts(_)   \* the set of child scripts, given AllScripts (MC: AllScripts itself)

BodyOps  == {"read", "wv", "wi", "cin", "cout"}
ExitOps  == {"exit0", "exit1", "exit2", "exit3", "exit101", "exit255"}
KillOps  == {"kill9", "kill11"}
AllTerms == ExitOps \cup KillOps \cup {"hang"}
Success  == {"exit0", "exit3"}    \* rustfmt: 0 = ok, 3 = "could not format some lines"

AllScripts ==
  UNION {{Append(b, t) : b \in [1..n -> BodyOps], t \in Terms} : n \in 0..(MaxLen - 1)}
ScriptsAll(a) == a    \* MC configurations: CONSTANT Scripts <- ScriptsAll

VARIABLES script, k, s, spawn,   \* the scenario (fixed after Init)
          ppc,                   \* parent program counter
          wpc, wi,               \* writer thread: state, chunks written
          cpc,                   \* child: index of the next step, 0 = not running
          status,                \* "" while the child has not terminated, else its terminator
          pin,                   \* chunks in the stdin pipe
          pout,                  \* chunks in the stdout pipe ("v" | "i")
          cinOpen, coutOpen,     \* the child's ends
          winOpen,               \* the write end of the stdin pipe (parent / writer thread)
          out,                   \* what the parent has drained
          ftres,                 \* result of format_tokens: "none" | "Ok" | "Err"
          result,                \* what `write` emits as body: "none" | "Formatted" | "Source" | "Fallback"
          wres                   \* result of `write`: "none" | "Ok" | "Err" | "Panic"

scen == <<script, k, s, spawn>>
vars == <<script, k, s, spawn, ppc, wpc, wi, cpc, status, pin, pout, cinOpen, coutOpen,
          winOpen, out, ftres, result, wres>>

Init == /\ script \in Scripts(AllScripts)
        /\ k \in Ks /\ s \in Ss /\ spawn \in SpawnKinds
        /\ ppc = "spawn" /\ wpc = "idle" /\ wi = 0 /\ cpc = 0 /\ status = ""
        /\ pin = 0 /\ pout = <<>> /\ cinOpen = FALSE /\ coutOpen = FALSE /\ winOpen = FALSE
        /\ out = <<>> /\ ftres = "none" /\ result = "none" /\ wres = "none"

-----------------------------------------------------------------------------
(* parent *)

\* Command::spawn()? : a failure is an io::Error of format_tokens
P_Spawn ==
  /\ ppc = "spawn"
  /\ IF spawn = "ok"
       THEN /\ cpc' = 1 /\ cinOpen' = TRUE /\ coutOpen' = TRUE /\ winOpen' = TRUE
            /\ ppc' = "startWriter" /\ UNCHANGED ftres
       ELSE /\ ftres' = "Err" /\ ppc' = "fallback"
            /\ UNCHANGED <<cpc, cinOpen, coutOpen, winOpen>>
  /\ UNCHANGED <<scen, wpc, wi, status, pin, pout, out, result, wres>>

P_StartWriter ==
  /\ ppc = "startWriter"
  /\ wpc' = "run"
  /\ ppc' = CASE Mode = "noThread" -> "syncWrite"        \* mutant: no thread
              [] Mode = "waitBeforeDrain" -> "wait"       \* mutant: wait first
              [] OTHER -> "drain"
  /\ UNCHANGED <<scen, wi, cpc, status, pin, pout, cinOpen, coutOpen, winOpen, out, ftres, result, wres>>

\* mutant only: the parent itself does the write_all, i.e. it goes on when the writer is done
P_SyncWrite ==
  /\ ppc = "syncWrite" /\ wpc = "done"
  /\ ppc' = "drain"
  /\ UNCHANGED <<scen, wpc, wi, cpc, status, pin, pout, cinOpen, coutOpen, winOpen, out, ftres, result, wres>>

\* io::copy(&mut child_stdout, &mut output)
P_Drain ==
  /\ ppc = "drain" /\ pout # <<>>
  /\ out' = Append(out, Head(pout)) /\ pout' = Tail(pout)
  /\ UNCHANGED <<scen, ppc, wpc, wi, cpc, status, pin, cinOpen, coutOpen, winOpen, ftres, result, wres>>

P_DrainEOF ==
  /\ ppc = "drain" /\ pout = <<>> /\ ~coutOpen
  /\ ppc' = IF Mode = "waitBeforeDrain" THEN "join" ELSE "wait"
  /\ UNCHANGED <<scen, wpc, wi, cpc, status, pin, pout, cinOpen, coutOpen, winOpen, out, ftres, result, wres>>

\* child.wait()
P_Wait ==
  /\ ppc = "wait" /\ status # ""
  /\ ppc' = IF Mode = "waitBeforeDrain" THEN "drain" ELSE "join"
  /\ UNCHANGED <<scen, wpc, wi, cpc, status, pin, pout, cinOpen, coutOpen, winOpen, out, ftres, result, wres>>

\* stdin_handle.join().expect(..): the writer has no panicking step, so no Panic outcome
P_Join ==
  /\ ppc = "join" /\ wpc = "done"
  /\ ppc' = "triage"
  /\ UNCHANGED <<scen, wpc, wi, cpc, status, pin, pout, cinOpen, coutOpen, winOpen, out, ftres, result, wres>>

Utf8(o) == \A i \in DOMAIN o : o[i] = "v"

P_Triage ==
  /\ ppc = "triage"
  /\ LET c == TriageClass(Utf8(out), status \in Success) IN
       IF c = "Fallback"
         THEN ftres' = "Err" /\ ppc' = "fallback" /\ UNCHANGED <<result, wres>>
         ELSE ftres' = "Ok" /\ result' = c /\ wres' = "Ok" /\ ppc' = "done"
  /\ UNCHANGED <<scen, wpc, wi, cpc, status, pin, pout, cinOpen, coutOpen, winOpen, out>>

\* Bindings::write: Err(err) => eprintln!(..non-fatal..); write the unformatted tokens
P_Fallback ==
  /\ ppc = "fallback"
  /\ IF Mode = "propagateErr"
       THEN result' = "none" /\ wres' = "Err"               \* mutant: format_tokens(..)?
       ELSE result' = "Fallback" /\ wres' = "Ok"
  /\ ppc' = "done"
  /\ UNCHANGED <<scen, wpc, wi, cpc, status, pin, pout, cinOpen, coutOpen, winOpen, out, ftres>>

Parent == P_Spawn \/ P_StartWriter \/ P_SyncWrite \/ P_Drain \/ P_DrainEOF \/ P_Wait \/ P_Join
          \/ P_Triage \/ P_Fallback

-----------------------------------------------------------------------------
(* writer thread: let _ = child_stdin.write_all(source); drop(child_stdin) *)

W_Write ==
  /\ wpc = "run" /\ wi < s /\ cinOpen /\ pin < k
  /\ pin' = pin + 1 /\ wi' = wi + 1
  /\ UNCHANGED <<scen, ppc, wpc, cpc, status, pout, cinOpen, coutOpen, winOpen, out, ftres, result, wres>>

\* the read end is gone: EPIPE, ignored (SIGPIPE is ignored in a Rust process)
W_Epipe ==
  /\ wpc = "run" /\ wi < s /\ ~cinOpen
  /\ wpc' = "done" /\ winOpen' = FALSE
  /\ UNCHANGED <<scen, ppc, wi, cpc, status, pin, pout, cinOpen, coutOpen, out, ftres, result, wres>>

W_Finish ==
  /\ wpc = "run" /\ wi = s
  /\ wpc' = "done" /\ winOpen' = FALSE
  /\ UNCHANGED <<scen, ppc, wi, cpc, status, pin, pout, cinOpen, coutOpen, out, ftres, result, wres>>

Writer == W_Write \/ W_Epipe \/ W_Finish

-----------------------------------------------------------------------------
(* child *)

Op == script[cpc]
Running == cpc > 0 /\ status = ""

\* read one chunk: data, or EOF once the write end is closed, or EBADF after cin; else blocks
C_Read ==
  /\ Running /\ Op = "read"
  /\ \/ ~cinOpen /\ UNCHANGED pin
     \/ cinOpen /\ pin > 0 /\ pin' = pin - 1
     \/ cinOpen /\ pin = 0 /\ ~winOpen /\ UNCHANGED pin
  /\ cpc' = cpc + 1
  /\ UNCHANGED <<scen, ppc, wpc, wi, status, pout, cinOpen, coutOpen, winOpen, out, ftres, result, wres>>

\* write one chunk: blocks while the pipe is full; EBADF (ignored) after cout
C_Write ==
  /\ Running /\ Op \in {"wv", "wi"}
  /\ \/ ~coutOpen /\ UNCHANGED pout
     \/ coutOpen /\ Len(pout) < k /\ pout' = Append(pout, IF Op = "wv" THEN "v" ELSE "i")
  /\ cpc' = cpc + 1
  /\ UNCHANGED <<scen, ppc, wpc, wi, status, pin, cinOpen, coutOpen, winOpen, out, ftres, result, wres>>

C_CloseIn ==
  /\ Running /\ Op = "cin"
  /\ cinOpen' = FALSE /\ pin' = 0 /\ cpc' = cpc + 1
  /\ UNCHANGED <<scen, ppc, wpc, wi, status, pout, coutOpen, winOpen, out, ftres, result, wres>>

C_CloseOut ==
  /\ Running /\ Op = "cout"
  /\ coutOpen' = FALSE /\ cpc' = cpc + 1
  /\ UNCHANGED <<scen, ppc, wpc, wi, status, pin, pout, cinOpen, winOpen, out, ftres, result, wres>>

\* exit(c) or death by signal: both ends close; "hang" has no step at all
C_Terminate ==
  /\ Running /\ Op \in ExitOps \cup KillOps
  /\ status' = Op /\ cinOpen' = FALSE /\ coutOpen' = FALSE /\ pin' = 0
  /\ UNCHANGED <<scen, ppc, wpc, wi, cpc, pout, winOpen, out, ftres, result, wres>>

Child == C_Read \/ C_Write \/ C_CloseIn \/ C_CloseOut \/ C_Terminate

-----------------------------------------------------------------------------
Terminated == ppc = "done"
Stutter == Terminated /\ UNCHANGED vars    \* so that only a real deadlock is a deadlock

Next == Parent \/ Writer \/ Child \/ Stutter
Spec == Init /\ [][Next]_vars
FairSpec == Spec /\ WF_vars(Parent) /\ WF_vars(Writer) /\ WF_vars(Child)

-----------------------------------------------------------------------------
(* the result as a function of the child's behaviour alone (declarative) *)

FirstCout(sc) == IF \E i \in DOMAIN sc : sc[i] = "cout"
                   THEN CHOOSE i \in DOMAIN sc : sc[i] = "cout" /\ \A j \in 1..(i - 1) : sc[j] # "cout"
                   ELSE Len(sc) + 1
IsWrite(op) == op \in {"wv", "wi"}
Flag(op) == IF op = "wv" THEN "v" ELSE "i"
\* the chunks that reach the parent: the writes before stdout is closed
RECURSIVE FlagsOf(_)
FlagsOf(sq) == IF sq = <<>> THEN <<>>
               ELSE IF IsWrite(Head(sq)) THEN <<Flag(Head(sq))>> \o FlagsOf(Tail(sq))
               ELSE FlagsOf(Tail(sq))
ExpectedOut(sc) == FlagsOf(SubSeq(sc, 1, FirstCout(sc) - 1))
ExpectedClass(sc, sp) ==
  IF sp # "ok" THEN "Fallback"
  ELSE IF ~Utf8(ExpectedOut(sc)) THEN "Source"
  ELSE IF sc[Len(sc)] \in Success THEN "Formatted"
  ELSE "Fallback"

-----------------------------------------------------------------------------
(* invariants *)

TypeOK ==
  /\ ppc \in {"spawn", "startWriter", "syncWrite", "drain", "wait", "join", "triage", "fallback", "done"}
  /\ wpc \in {"idle", "run", "done"} /\ wi \in 0..s
  /\ cpc \in 0..Len(script) /\ status \in {""} \cup AllTerms
  /\ pin \in 0..k /\ Len(pout) <= k
  /\ ftres \in {"none", "Ok", "Err"}
  /\ result \in {"none", "Formatted", "Source", "Fallback"}
  /\ wres \in {"none", "Ok", "Err", "Panic"}

\* `write` never returns an error and never panics
NeverErrorPanic == wres \in {"none", "Ok"}

\* result class = f(child behaviour), independent of k, s and the interleaving
ResultIsFunction ==
  Terminated =>
    /\ wres = "Ok"
    /\ result = ExpectedClass(script, spawn)
    /\ (spawn = "ok" => out = ExpectedOut(script))
    /\ (result = "Formatted" <=> ftres = "Ok" /\ spawn = "ok" /\ Utf8(out) /\ status \in Success)
    /\ (result = "Source" <=> spawn = "ok" /\ ~Utf8(out))

\* protocol order (the shape a `fmt` hook log would be validated against)
Protocol ==
  /\ (ppc \in {"wait", "join", "triage"} /\ Mode = "thread" => pout = <<>> /\ ~coutOpen)   \* drained before wait
  /\ (ppc \in {"join", "triage"} => status # "")                                            \* waited before join
  /\ (ppc = "triage" => wpc = "done")                                                       \* joined before triage
  /\ (Terminated /\ spawn = "ok" => status # "" /\ wpc = "done" /\ ~winOpen /\ pin = 0 /\ pout = <<>>)  \* nothing left behind

Termination == <>Terminated

\* the `fmt` hook event that the parent has emitted last (Mode "thread"), and the refinement that
\* Trace_Formatter relies on: the parent's steps follow FormatterRules!NextStep
LastStep == CASE spawn # "ok" \/ ppc = "spawn" -> "start"
              [] ppc \in {"startWriter", "syncWrite", "drain"} -> "spawned"
              [] ppc = "wait" -> "drain_eof"
              [] ppc = "join" -> "waited"
              [] OTHER -> "joined"
StepsFollowNextStep ==
  [][LastStep' # LastStep => LastStep \in DOMAIN NextStep /\ NextStep[LastStep] = LastStep']_vars
=============================================================================
