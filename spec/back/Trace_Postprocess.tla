-------------------------- MODULE Trace_Postprocess --------------------------
(***************************************************************************)
(* Validation (impl -> spec) of observations of the REAL post-processing   *)
(* passes against the predicates of Postprocess.tla.                       *)
(*                                                                         *)
(* Input ($TRACE, NDJSON): one line per case                               *)
(*   {"case": id, "a": tree of the unprocessed bindings,                   *)
(*    "runs": [{"m": bool, "s": bool,                                      *)
(*              "b": tree produced by the real passes from a,              *)
(*              "c": tree produced by the real passes from b}]}            *)
(* where the trees are abstractions (lib/checks/c18.py) of the syn         *)
(* inventories of what bindgen / verif_postprocess really produced: item   *)
(* texts are interned to `id`s, extern blocks carry abi / attributes /     *)
(* unsafety, modules are nested.  One state per consumed line.             *)
(*                                                                         *)
(* Property predicates (L1) that fail are collected in `viol`; a           *)
(* difference from the exact result of the L2 machine is `drift` only.     *)
(***************************************************************************)
EXTENDS Postprocess, Json, IOUtils

Rec == ndJsonDeserialize(IOEnv.TRACE)

VARIABLES l, viol, drift, nrun
vars == <<l, viol, drift, nrun>>

Cap(s, t) == IF Len(s) < 300 THEN s \o t ELSE s

WitBag(fa, fb) ==
  LET A == Rng(fa)
      B == Rng(fb)
  IN IF A \ B # {} THEN [lost |-> CHOOSE x \in A \ B : TRUE]
     ELSE IF B \ A # {} THEN [added |-> CHOOSE x \in B \ A : TRUE]
     ELSE IF \E x \in A : Count(fa, x) # Count(fb, x)
          THEN LET x == CHOOSE y \in A : Count(fa, y) # Count(fb, y)
               IN [item |-> x, before |-> Count(fa, x), after |-> Count(fb, x)]
          ELSE [lenBefore |-> Len(fa), lenAfter |-> Len(fb)]

WitKey(fa, fb) ==
  LET i == CHOOSE j \in DOMAIN fb : IsForeign(fb[j]) /\ \A h \in DOMAIN fa : FKey(fa[h]) # FKey(fb[j])
  IN [after |-> fb[i], before |-> {fa[h] : h \in {g \in DOMAIN fa : fa[g].id = fb[i].id /\ IsForeign(fa[g])}}]

WitOrder(fa, fb) ==
  LET c == CHOOSE d \in {Class(fa[i]) : i \in DOMAIN fa} \cup {Class(fb[i]) : i \in DOMAIN fb} :
             Proj(fa, d) # Proj(fb, d)
  IN [class |-> c, before |-> Proj(fa, c), after |-> Proj(fb, c)]

CheckRun(case, a, fa, r) ==
  LET fb == Flat(r.b, <<>>)
      V(kind, wit) == <<[kind |-> kind, case |-> case, m |-> r.m, s |-> r.s, wit |-> wit]>>
      items == SameItems(fa, fb)
  IN [v |-> (IF ~items THEN V("items", WitBag(fa, fb)) ELSE <<>>)
            \o (IF ~SameModules(fa, fb)
                THEN V("modules", WitBag(SelectSeq(fa, IsMod), SelectSeq(fb, IsMod))) ELSE <<>>)
            \o (IF ~MergeKeyOK(fa, fb) THEN V("mergekey", WitKey(fa, fb)) ELSE <<>>)
            \o (IF items /\ ~KindOrderOK(fa, fb) THEN V("kindorder", WitOrder(fa, fb)) ELSE <<>>)
            \o (IF r.c # r.b THEN V("idempotent", [lenFirst |-> Len(fb), lenSecond |-> Len(Flat(r.c, <<>>))])
                ELSE <<>>),
      d |-> IF Apply(a, r.m, r.s, "none") # r.b THEN <<[case |-> case, m |-> r.m, s |-> r.s]>> ELSE <<>>]

CheckCase(rec) ==
  LET fa == Flat(rec.a, <<>>)
      RECURSIVE Go(_, _)
      Go(i, acc) == IF i > Len(rec.runs) THEN acc
                    ELSE LET x == CheckRun(rec.case, rec.a, fa, rec.runs[i])
                         IN Go(i + 1, [v |-> acc.v \o x.v, d |-> acc.d \o x.d])
  IN Go(1, [v |-> <<>>, d |-> <<>>])

Init == l = 1 /\ viol = <<>> /\ drift = <<>> /\ nrun = 0

Next == /\ l <= Len(Rec)
        /\ LET x == CheckCase(Rec[l]) IN
           /\ viol' = Cap(viol, x.v)
           /\ drift' = Cap(drift, x.d)
        /\ nrun' = nrun + Len(Rec[l].runs)
        /\ l' = l + 1

Spec == Init /\ [][Next]_vars

Accepted ==
  LET d == TLCGet("stats").diameter IN
  IF d - 1 = Len(Rec) THEN TRUE
  ELSE /\ PrintT(<<"REJECTED", ToJson([at |-> d, case |-> Rec[d].case])>>)
       /\ FALSE

Done == l = Len(Rec) + 1
Report == Done => /\ PrintT(<<"VIOL", ToJson(viol)>>)
                  /\ PrintT(<<"DRIFT", ToJson(drift)>>)
                  /\ PrintT(<<"COUNTS", ToJson([cases |-> Len(Rec), runs |-> nrun])>>)
=============================================================================
