SPECIFICATION Spec
CONSTANTS
  Kinds = {"Struct"}
  Abis = {"C", "system"}
  BAttrs = {"none", "a"}
  FKinds = {"FFn"}
  FAttrs = {"none"}
  MaxForeign = 1
  MaxLen = 3
  MaxInner = 2
  MaxDepth = 0
  MaxNodes = 6
  UnsChoices = {TRUE, FALSE}
  Uniform = FALSE
  Mutant = "merge_key_unsafety"
  Mode = "mc"
INVARIANTS InvItems InvModules InvMergeKey InvKindOrder InvIdempotent
CHECK_DEADLOCK FALSE
