------------------------------ MODULE FFITypes ------------------------------
(***************************************************************************)
(* The C type universe of C04 / C16 and its lowering to Rust               *)
(* (codegen utils::fnsig_argument_type / fnsig_return_ty, ArgLower).       *)
(*                                                                         *)
(* A type is a record with a unique `id` (usable inside a C identifier):   *)
(*   sc  scalar                      td  typedef (rust # "" : the name     *)
(*   en  enum   st struct  un union      bindgen maps it to, else resolve) *)
(*   ptr pointer (c = pointee const) arr array parameter (len 0 = [])      *)
(*   fp  pointer to function         void                                  *)
(* The renderer (lib/ffi.py) owns the C text and the boundary values of    *)
(* every id; this module owns what the Rust side must look like and how    *)
(* many boundary tokens a type has.                                        *)
(***************************************************************************)
EXTENDS Naturals, Sequences, FiniteSets

Range(q) == {q[i] : i \in DOMAIN q}
Sc(n) == [k |-> "sc", id |-> n]
Void == [k |-> "void", id |-> "void"]

ScalarIds == <<"bool", "char", "schar", "uchar", "short", "ushort", "int", "uint", "long", "ulong",
               "llong", "ullong", "float", "double">>
ScalarRust == [bool |-> "bool", char |-> "c_char", schar |-> "c_schar", uchar |-> "c_uchar",
               short |-> "c_short", ushort |-> "c_ushort", int |-> "c_int", uint |-> "c_uint",
               long |-> "c_long", ulong |-> "c_ulong", llong |-> "c_longlong",
               ullong |-> "c_ulonglong", float |-> "f32", double |-> "f64"]
ScalarSeq == [i \in DOMAIN ScalarIds |-> Sc(ScalarIds[i])]
Scalars == Range(ScalarSeq)

Td(id, of, rust) == [k |-> "td", id |-> id, of |-> of, rust |-> rust]
TypedefSeq == << Td("td_int", Sc("int"), ""), Td("td_uchar", Sc("uchar"), ""), Td("td_ullong", Sc("ullong"), ""),
              Td("td_td_short", Td("td_short", Sc("short"), ""), ""),
              Td("uint8_t", Sc("uchar"), "u8"), Td("int16_t", Sc("short"), "i16"),
              Td("uint32_t", Sc("uint"), "u32"), Td("int64_t", Sc("long"), "i64"),
              Td("size_t", Sc("ulong"), "usize"), Td("ptrdiff_t", Sc("long"), "isize"),
              Td("uintptr_t", Sc("ulong"), "usize"),
              \* the stdint names whose width is the C library's choice (glibc x86_64: fast16/fast32 are long);
              \* bindgen keeps them as aliases of what clang says they are
              Td("int_fast16_t", Sc("long"), ""), Td("uint_fast32_t", Sc("ulong"), ""),
              Td("int_least16_t", Sc("short"), ""), Td("uint_least8_t", Sc("uchar"), ""),
              Td("intmax_t", Sc("long"), "") >>
Typedefs == Range(TypedefSeq)

(* enums: E_s has a negative enumerator (int), E_u none (unsigned int), E_l needs 64 bits *)
En(id, rust) == [k |-> "en", id |-> id, rust |-> rust]
EnumSeq == << En("E_s", "c_int"), En("enum_E_u", "c_uint"), En("E_l", "c_ulong") >>
Enums == Range(EnumSeq)

(* by-value aggregates: name encodes size and eightbyte classes (see lib/ffi.py STRUCTS) *)
StructIds == <<"S1", "S2", "S3", "S4i", "S4f", "S7", "S8i", "S8f", "S8d", "S8m", "S9", "S12i", "S12f",
              "struct_S12m", "S15", "S16i", "S16d", "S16id", "S16di", "S16f", "S16m", "S17", "S24i", "S24d",
              "S32d", "S32m", "S33", "S64i", "S64d">>
UnionIds == <<"U4", "union_U8", "U8d", "U16", "U24">>
St(id) == [k |-> "st", id |-> id]
Un(id) == [k |-> "un", id |-> id]
StructSeq == [i \in DOMAIN StructIds |-> St(StructIds[i])]
UnionSeq == [i \in DOMAIN UnionIds |-> Un(UnionIds[i])]
Structs == Range(StructSeq)
Unions == Range(UnionSeq)
TdStruct == Td("TS16", [k |-> "tst", id |-> "TS16"], "TS16")   \* typedef struct {...} TS16;

Ptr(id, c, to) == [k |-> "ptr", id |-> id, c |-> c, to |-> to]
PointerSeq == << Ptr("p_int", FALSE, Sc("int")), Ptr("pc_int", TRUE, Sc("int")),
              Ptr("p_char", FALSE, Sc("char")), Ptr("pc_char", TRUE, Sc("char")),
              Ptr("p_void", FALSE, Void), Ptr("pc_void", TRUE, Void),
              Ptr("p_double", FALSE, Sc("double")), Ptr("pc_S16i", TRUE, St("S16i")),
              Ptr("p_S33", FALSE, St("S33")), Ptr("pp_int", FALSE, Ptr("p_int", FALSE, Sc("int"))),
              Ptr("pc_pc_char", TRUE, Ptr("pc_char", TRUE, Sc("char"))),
              Ptr("p_td_int", FALSE, Td("td_int", Sc("int"), "")),
              \* the const lives in the typedef: `typedef const int ro_int; ro_int *p` is a pointer to const
              Ptr("p_ro_int", TRUE, Td("ro_int", Sc("int"), "")) >>
Pointers == Range(PointerSeq)

Arr(id, c, of, len) == [k |-> "arr", id |-> id, c |-> c, of |-> of, len |-> len]
ArraySeq == << Arr("a4_int", FALSE, Sc("int"), 4), Arr("ac_char", TRUE, Sc("char"), 0),
            Arr("a2_S8m", FALSE, St("S8m"), 2), Arr("ac3_double", TRUE, Sc("double"), 3),
            Arr("a2x3_int", FALSE, [k |-> "arrin", id |-> "x3_int", of |-> Sc("int"), len |-> 3], 2) >>
Arrays == Range(ArraySeq)

(* pointers to function: the callbacks of the token protocol *)
Fp(id, ret, args) == [k |-> "fp", id |-> id, ret |-> ret, args |-> args]
FnPtrSeq == << Fp("cb_i_i", Sc("int"), <<Sc("int")>>),
            Fp("cb_l_sd", Sc("long"), <<Sc("short"), Sc("double")>>),
            Fp("cb_v_S16id", Void, <<St("S16id")>>),
            Fp("cb_S8m_ucpf", St("S8m"), <<Sc("uchar"), Ptr("pc_char", TRUE, Sc("char")), Sc("float")>>),
            Fp("cb_d_v", Sc("double"), <<>>) >>
FnPtrs == Range(FnPtrSeq)

ValueTypes == Scalars \cup Typedefs \cup Enums \cup Structs \cup Unions \cup {TdStruct} \cup Pointers
ArgTypes == ValueTypes \cup Arrays \cup FnPtrs
RetTypes == ValueTypes \cup {Void}
GArr == [k |-> "garr", id |-> "g4_int", of |-> Sc("int"), len |-> 4]
(* one sequence of everything: the index of a type is used in generated names *)
AllTypeSeq == ScalarSeq \o TypedefSeq \o EnumSeq \o StructSeq \o UnionSeq \o <<TdStruct>> \o PointerSeq
              \o ArraySeq \o FnPtrSeq \o <<Void, GArr>>
IdxOf(t) == CHOOSE i \in DOMAIN AllTypeSeq : AllTypeSeq[i] = t
GlobalTypes == ValueTypes \cup {GArr} \cup FnPtrs

(* number of boundary tokens of a type *)
NTok(t) == CASE t.k = "sc" /\ t.id = "bool" -> 2
             [] t.k = "void" -> 1
             [] t.k = "fp" -> IF t.ret.k = "void" THEN 2 ELSE IF t.ret = Sc("bool") THEN 2 ELSE 6
             [] OTHER -> 6

(***************************************************************************)
(* Lowering.  cn = --c-naming (struct/enum/union tags become part of the   *)
(* Rust name).  Typedefs resolve to what they name unless bindgen maps the *)
(* name itself (stdint / size_t family): the predicted signature is        *)
(* compared by rustc's type checker, so aliases are transparent.           *)
(***************************************************************************)
RECURSIVE RustTy(_, _)
RustRet(t, cn, noreturn) ==
  IF noreturn THEN " -> !" ELSE IF t.k = "void" THEN "" ELSE " -> " \o RustTy(t, cn)

RECURSIVE JoinTys(_, _)
JoinTys(ts, cn) == IF ts = <<>> THEN ""
                   ELSE IF Len(ts) = 1 THEN RustTy(ts[1], cn)
                   ELSE RustTy(ts[1], cn) \o ", " \o JoinTys(Tail(ts), cn)

DecStr(n) == CASE n = 0 -> "0" [] n = 1 -> "1" [] n = 2 -> "2" [] n = 3 -> "3" [] n = 4 -> "4"
               [] n = 5 -> "5" [] n = 6 -> "6" [] n = 7 -> "7" [] n = 8 -> "8" [] OTHER -> "9"

RustTy(t, cn) ==
  CASE t.k = "sc" -> ScalarRust[t.id]
    [] t.k = "td" -> IF t.rust # "" THEN t.rust ELSE RustTy(t.of, cn)
    [] t.k = "en" -> t.rust
    [] t.k = "st" -> IF cn THEN "struct_" \o t.id ELSE t.id
    [] t.k = "un" -> IF cn THEN "union_" \o t.id ELSE t.id
    [] t.k = "tst" -> t.id
    [] t.k = "void" -> "c_void"
    [] t.k = "ptr" -> (IF t.c THEN "*const " ELSE "*mut ") \o RustTy(t.to, cn)
    [] t.k = "arr" -> (IF t.c THEN "*const " ELSE "*mut ") \o RustTy(t.of, cn)     \* array -> pointer
    [] t.k \in {"arrin", "garr"} -> "[" \o RustTy(t.of, cn) \o "; " \o DecStr(t.len) \o "]"
    [] t.k = "fp" -> "Option<unsafe extern \"C\" fn(" \o JoinTys(t.args, cn) \o ")"
                     \o RustRet(t.ret, cn, FALSE) \o ">"

(* the Rust function-pointer type a binding must coerce to *)
RustSig(abi, args, variadic, ret, noreturn, cn) ==
  "unsafe extern \"" \o abi \o "\" fn(" \o JoinTys(args, cn)
  \o (IF variadic THEN ", ..." ELSE "") \o ")" \o RustRet(ret, cn, noreturn)

(* promoted types that may travel in a variadic tail *)
VaTypeSeq == << Sc("int"), Sc("uint"), Sc("long"), Sc("ullong"), Sc("double"),
             Ptr("pc_char", TRUE, Sc("char")), Ptr("p_void", FALSE, Void) >>
VaTypes == Range(VaTypeSeq)

(* checksum of the token protocol: digit i (base 7) = token index of argument i; 6 = unclassifiable. *)
(* Weights wrap after 8 positions so that 15-argument signatures stay inside TLC's 32-bit integers.  *)
Pow7 == <<1, 7, 49, 343, 2401, 16807, 117649, 823543>>
RECURSIVE CodeFrom(_, _)
CodeFrom(toks, pos) == IF toks = <<>> THEN 0 ELSE toks[1] * Pow7[(pos % 8) + 1] + CodeFrom(Tail(toks), pos + 1)
Code(toks) == CodeFrom(toks, 0)
=============================================================================
