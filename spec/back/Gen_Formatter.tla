---------------------------- MODULE Gen_Formatter ----------------------------
(***************************************************************************)
(* Behaviour generator (spec -> impl) of C15: every child script of the    *)
(* bounded universe, plus the named scenarios of the property statement    *)
(* (read from the JSON file $EXTRA: an array of scripts), is run through   *)
(* the Formatter machine; each terminal state prints the script with the   *)
(* result the specification predicts. lib/checks/c15.py turns each script  *)
(* into a fakefmt script and runs the real `Bindings::write` on it.        *)
(***************************************************************************)
EXTENDS Formatter, Json, IOUtils

Extra == LET j == JsonDeserialize(IOEnv.EXTRA) IN {j[i] : i \in DOMAIN j}
ScriptsGen(a) == a \cup Extra

Emitted == Terminated =>
  PrintT(<<"SCRIPT", ToJson([script |-> script, s |-> s, k |-> k, spawn |-> spawn,
                             result |-> result, wres |-> wres, out |-> out, status |-> status])>>)
=============================================================================
