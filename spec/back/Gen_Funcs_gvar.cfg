SPECIFICATION Spec
CONSTANTS
  NFns = 1
  MinArity = 0
  MaxArity = 0
  Kinds = {"gvar"}
  Shapes = {"plain"}
  ArgSet = "all"
  RetSet = "int"
  OptSet = "none"
  FixedToks = TRUE
  Pad = FALSE
INVARIANTS Emitted UniqueIdents PredictedSymbolsOK
CHECK_DEADLOCK FALSE
