SPECIFICATION Spec
CONSTANTS
  Target = "win32"
  NoMangling = FALSE
INVARIANT Emitted
CHECK_DEADLOCK FALSE
