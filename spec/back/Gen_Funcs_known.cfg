SPECIFICATION Spec
CONSTANTS
  NFns = 1
  MinArity = 0
  MaxArity = 0
  Kinds = {"fn","gvar"}
  Shapes = {"asmu"}
  ArgSet = "reps"
  RetSet = "int"
  OptSet = "none"
  FixedToks = TRUE
  Pad = FALSE
INVARIANTS Emitted UniqueIdents PredictedSymbolsOK
CHECK_DEADLOCK FALSE
