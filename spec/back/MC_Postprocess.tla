--------------------------- MODULE MC_Postprocess ---------------------------
(***************************************************************************)
(* Bounded model of the post-processing passes.                            *)
(*                                                                         *)
(* Build phase: TLC constructs EVERY item tree of the configured universe  *)
(* (one state per tree under construction; ids are given out in            *)
(* construction order, so a tree has exactly one construction).            *)
(* Run phase (Mode = "mc"): for each complete tree and each of the four    *)
(* on/off combinations of the passes, the pass list of                     *)
(* postprocessing/mod.rs is executed pass by pass, twice (the second round *)
(* is the "already processed bindings" of the property).  The invariants   *)
(* are the L1 predicates of Postprocess.tla: L2 => L1.                     *)
(* Mode = "gen": only the build phase; every complete tree is printed with *)
(* the result the spec predicts for each combination (binding R).          *)
(***************************************************************************)
EXTENDS Postprocess, Json

CONSTANTS Kinds,       \* simple item kinds to draw from
          Abis,        \* ABIs of extern blocks; {} = no extern blocks
          BAttrs,      \* block attribute classes
          FKinds,      \* kinds of foreign items
          FAttrs,      \* attribute classes of foreign items
          MaxForeign,  \* foreign items per block: 0..MaxForeign
          MaxLen,      \* items at the top level
          MaxInner,    \* items in a module
          MaxDepth,    \* module nesting (0 = no modules)
          MaxNodes,    \* items in the whole tree (incl. foreign items)
          UnsChoices,  \* unsafety values of blocks
          Uniform,     \* TRUE: all blocks of one tree have the same unsafety
          Mutant,      \* "none" or a broken variant of L2 (sensitivity)
          Mode         \* "mc" | "gen"

VARIABLES stack,   \* frames [id, items] of the modules under construction; stack[1] = file
          nid,     \* ids handed out so far
          u0,      \* the generation's unsafety (Uniform)
          pc,      \* "build" | "run" | "done"
          comb,    \* <<merge, sort>>
          pi,      \* next pass of PASSES (1 = merge, 2 = sort)
          round,   \* 1 | 2
          inp, cur, out1
vars == <<stack, nid, u0, pc, comb, pi, round, inp, cur, out1>>

FShapes == UNION {[1..n -> FKinds \X FAttrs] : n \in 0..MaxForeign}

Init == /\ stack = <<[id |-> 0, items |-> <<>>]>> /\ nid = 0 /\ u0 \in UnsChoices
        /\ pc = "build" /\ comb = <<FALSE, FALSE>> /\ pi = 0 /\ round = 0
        /\ inp = <<>> /\ cur = <<>> /\ out1 = <<>>

Top == stack[Len(stack)]
Room == Len(Top.items) < (IF Len(stack) = 1 THEN MaxLen ELSE MaxInner)
Push(it) == stack' = [stack EXCEPT ![Len(stack)].items = Append(@, it)]
NoRun == UNCHANGED <<u0, pc, comb, pi, round, inp, cur, out1>>

AddSimple(k) == /\ pc = "build" /\ Room /\ nid < MaxNodes
                /\ Push(Item(k, nid + 1)) /\ nid' = nid + 1 /\ NoRun

OpenMod == /\ pc = "build" /\ Room /\ nid < MaxNodes /\ Len(stack) <= MaxDepth
           /\ stack' = Append(stack, [id |-> nid + 1, items |-> <<>>])
           /\ nid' = nid + 1 /\ NoRun

CloseMod == /\ pc = "build" /\ Len(stack) > 1
            /\ stack' = [SubSeq(stack, 1, Len(stack) - 1) EXCEPT ![Len(stack) - 1].items =
                            Append(@, [Item("Mod", Top.id) EXCEPT !.items = Top.items])]
            /\ UNCHANGED nid /\ NoRun

AddFM(abi, bat, uns, sh) ==
  /\ pc = "build" /\ Room /\ nid + 1 + Len(sh) <= MaxNodes
  /\ Uniform => uns = u0
  /\ Push([k |-> "FM", id |-> nid + 1, abi |-> abi, at |-> bat, uns |-> uns,
           items |-> IF sh = <<>> THEN <<>>
                     ELSE [j \in 1..Len(sh) |-> [Item(sh[j][1], nid + 1 + j) EXCEPT !.at = sh[j][2]]]])
  /\ nid' = nid + 1 + Len(sh) /\ NoRun

Build == \/ \E k \in Kinds : AddSimple(k)
         \/ OpenMod \/ CloseMod
         \/ \E abi \in Abis, bat \in BAttrs, uns \in UnsChoices, sh \in FShapes : AddFM(abi, bat, uns, sh)

Complete == pc = "build" /\ Len(stack) = 1
Tree == stack[1].items

Choose(m, so) == /\ Complete
                 /\ pc' = "run" /\ comb' = <<m, so>> /\ pi' = 1 /\ round' = 1
                 /\ inp' = Tree /\ cur' = Tree /\ out1' = <<>>
                 /\ UNCHANGED <<stack, nid, u0>>

(* one iteration of `for pass in PASSES { if should_run { run } }`         *)
Pass == /\ pc = "run"
        /\ LET nxt == IF pi = 1 THEN (IF comb[1] THEN MergeTree(cur, Mutant) ELSE cur)
                      ELSE (IF comb[2] THEN SortTree(cur, Mutant) ELSE cur)
           IN /\ cur' = nxt
              /\ IF pi = 1 THEN pi' = 2 /\ UNCHANGED <<round, pc, out1>>
                 ELSE IF round = 1 THEN pi' = 1 /\ round' = 2 /\ out1' = nxt /\ UNCHANGED pc
                 ELSE pc' = "done" /\ UNCHANGED <<pi, round, out1>>
        /\ UNCHANGED <<stack, nid, u0, comb, inp>>

Next == IF Mode = "gen" THEN Build
        ELSE Build \/ (\E m, so \in BOOLEAN : Choose(m, so)) \/ Pass
Spec == Init /\ [][Next]_vars

-----------------------------------------------------------------------------
(* L2 => L1.  A failing invariant prints its counterexample as JSON so     *)
(* that it can be replayed on the real passes before anything is concluded *)
Done == pc = "done"
Cex(name) == /\ PrintT(<<"CEX", ToJson([inv |-> name, m |-> comb[1], s |-> comb[2],
                                        inp |-> inp, out |-> out1, again |-> cur])>>)
             /\ FALSE
FI == Flat(inp, <<>>)
FO == Flat(out1, <<>>)
InvItems == Done => (SameItems(FI, FO) \/ Cex("items"))
InvModules == Done => (SameModules(FI, FO) \/ Cex("modules"))
InvMergeKey == Done => (MergeKeyOK(FI, FO) \/ Cex("mergekey"))
InvKindOrder == Done => (KindOrderOK(FI, FO) \/ Cex("kindorder"))
InvIdempotent == Done => (cur = out1 \/ Cex("idempotent"))
(* the pass-by-pass machine computes Apply                                  *)
InvApply == Done => out1 = Apply(inp, comb[1], comb[2], Mutant)
(* the assumption under which the key without unsafety is sufficient        *)
InvUniform == Done /\ Uniform => UniformUnsafety(inp)

(* binding R: every complete tree with the predicted results               *)
Combos == <<<<FALSE, FALSE>>, <<TRUE, FALSE>>, <<FALSE, TRUE>>, <<TRUE, TRUE>>>>
Emit == (Mode = "gen" /\ Complete) =>
          PrintT(<<"SEQ", ToJson([inp |-> Tree,
                                  out |-> [c \in 1..4 |-> Apply(Tree, Combos[c][1], Combos[c][2], Mutant)]])>>)
=============================================================================
