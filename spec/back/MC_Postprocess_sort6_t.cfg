SPECIFICATION Spec
CONSTANTS
  Kinds = {"Type", "Struct", "Fn", "Static", "Impl", "Use"}
  Abis = {"C"}
  BAttrs = {"none"}
  FKinds = {"FFn"}
  FAttrs = {"none"}
  MaxForeign = 0
  MaxLen = 6
  MaxInner = 2
  MaxDepth = 0
  MaxNodes = 6
  UnsChoices = {TRUE}
  Uniform = TRUE
  Mutant = "none"
  Mode = "mc"
INVARIANTS InvItems InvModules InvMergeKey InvKindOrder InvIdempotent InvApply InvUniform
CHECK_DEADLOCK FALSE
