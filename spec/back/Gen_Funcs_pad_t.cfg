SPECIFICATION Spec
CONSTANTS
  NFns = 1
  MinArity = 1
  MaxArity = 1
  Kinds = {"fn"}
  Shapes = {"plain"}
  ArgSet = "all"
  RetSet = "int"
  OptSet = "none"
  FixedToks = TRUE
  Pad = TRUE
INVARIANTS Emitted UniqueIdents PredictedSymbolsOK
CHECK_DEADLOCK FALSE
