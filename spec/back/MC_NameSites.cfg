SPECIFICATION Spec
CONSTANTS
  Unmangled = {}
  Universe <- AllNames
INVARIANTS SiteSafe Faithful ComposedStable Emit
CHECK_DEADLOCK FALSE
