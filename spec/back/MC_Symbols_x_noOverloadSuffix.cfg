SPECIFICATION Spec
CONSTANTS
  Target = "elf"
  K = 2
  AsmUnderscore = FALSE
  SuffixLike = FALSE
  NoMangling = FALSE
  VarLinkOverride = FALSE
  Mutation = "noOverloadSuffix"
INVARIANTS UniqueIdents
CHECK_DEADLOCK FALSE
