SPECIFICATION Spec
CONSTANTS
  Base = {"send", "send1", "send2", "send11"}
  MaxDecls = 6
  MaxCtors = 0
  Probing = TRUE
INVARIANTS UniqueMethods FunctionsUniqueExactlyOutsideClass FirstKeepsName ExternCollisionNeedsSuffixLikeNames Emit
CHECK_DEADLOCK FALSE
