SPECIFICATION Spec
CONSTANTS
  Base = {"send", "new1", "Chan1"}
  MaxDecls = 4
  MaxCtors = 3
  Probing = TRUE
INVARIANTS UniqueMethods FirstKeepsName ExternCollisionNeedsSuffixLikeNames Emit
CHECK_DEADLOCK FALSE
