SPECIFICATION Spec
CONSTANTS
  Base = {"send", "send1", "send2"}
  MaxDecls = 5
  Probing = TRUE
INVARIANTS ExternUnique
CHECK_DEADLOCK FALSE
