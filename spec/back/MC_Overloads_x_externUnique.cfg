SPECIFICATION Spec
CONSTANTS
  Base = {"send", "send1", "send2"}
  MaxDecls = 5
  MaxCtors = 0
  Probing = TRUE
INVARIANTS ExternUnique
CHECK_DEADLOCK FALSE
