SPECIFICATION Spec
CONSTANTS
  Target = "macho"
  K = 3
  AsmUnderscore = FALSE
  SuffixLike = FALSE
  NoMangling = FALSE
  VarLinkOverride = FALSE
  Mutation = "none"
INVARIANTS SymbolsOK UniqueIdents OneBindingPerSymbol LinkNameIff
CHECK_DEADLOCK FALSE
