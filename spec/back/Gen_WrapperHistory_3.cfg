SPECIFICATION Spec
CONSTANTS
    Fns <- F6
    MaxSteps = 3
    WriteMode = "replace"
    OnSerializeError = "fail"
INVARIANTS PrintHist
CHECK_DEADLOCK FALSE
