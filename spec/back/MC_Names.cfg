SPECIFICATION Spec
CONSTANTS
  Alphabet = {"a", "f", "n", "$", "_"}
  MaxLen = 3
  Keywords <- KW
INVARIANTS Emit NeverKeyword Identity
CHECK_DEADLOCK FALSE
