SPECIFICATION Spec
CONSTANTS
  Kinds = {"Struct", "Use"}
  Abis = {"C"}
  BAttrs = {"none", "a"}
  FKinds = {"FFn"}
  FAttrs = {"none"}
  MaxForeign = 1
  MaxLen = 4
  MaxInner = 3
  MaxDepth = 2
  MaxNodes = 6
  UnsChoices = {TRUE}
  Uniform = TRUE
  Mutant = "none"
  Mode = "mc"
INVARIANTS InvItems InvModules InvMergeKey InvKindOrder InvIdempotent InvApply InvUniform
CHECK_DEADLOCK FALSE
