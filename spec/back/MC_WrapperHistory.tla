------------------------- MODULE MC_WrapperHistory -------------------------
(* Model checking and behaviour generation for WrapperHistory.tla.            *)
(*   MC_WrapperHistory.cfg            the code: all invariants hold           *)
(*   MC_WrapperHistory_x_overlay.cfg  file written without truncation: NoExtra / NoDangling fail *)
(*   MC_WrapperHistory_x_skip.cfg     serialisation error downgraded: NoDangling fails           *)
(*   Gen_WrapperHistory_*.cfg         print every history of MaxSteps generations (HIST lines)   *)
EXTENDS WrapperHistory, Json

F4 == {[name |-> 1, kind |-> "plain"], [name |-> 2, kind |-> "unsup"],
       [name |-> 3, kind |-> "variadic"], [name |-> 4, kind |-> "plain"]}
F6 == F4 \cup {[name |-> 5, kind |-> "extern"], [name |-> 6, kind |-> "plain"]}

PrintHist == Len(hist) = MaxSteps => PrintT(<<"HIST", ToJson([steps |-> hist, fns |-> Sorted(Names),
                                                         kinds |-> [i \in 1..Cardinality(Names) |-> Kind(i)]])>>)
=============================================================================
