SPECIFICATION Spec
CONSTANTS
  Unmangled = {"arg"}
  Universe <- AllNames
INVARIANTS SiteSafe
CHECK_DEADLOCK FALSE
