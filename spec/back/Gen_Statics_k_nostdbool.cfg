SPECIFICATION Spec
CONSTANTS
  NFns = 1
  MinArity = 1
  MaxArity = 1
  Kinds = {"static_inline"}
  Shapes = {"plain"}
  ArgSet = "bool"
  RetSet = "bool"
  OptSet = "nostdbool"
  FixedToks = TRUE
INVARIANTS Emitted PredictedBijection
CHECK_DEADLOCK FALSE
