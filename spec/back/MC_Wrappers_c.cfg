SPECIFICATION Spec
CONSTANTS
  K = 3
  Lang = "c"
  WithKeyword = FALSE
  WithLinkOv = FALSE
  Mutation = "none"
INVARIANTS InvNoDangling InvBijection InvInternalNeverPlain InvVariadic InvExternalPlain
CHECK_DEADLOCK FALSE
