SPECIFICATION Spec
CONSTANTS
  K = 1
  Lang = "c"
  WithKeyword = TRUE
  WithLinkOv = FALSE
  Mutation = "none"
INVARIANTS InvNoDangling
CHECK_DEADLOCK FALSE
