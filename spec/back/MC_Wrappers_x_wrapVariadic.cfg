SPECIFICATION Spec
CONSTANTS
  K = 1
  Lang = "c"
  WithKeyword = FALSE
  WithLinkOv = FALSE
  Mutation = "wrapVariadic"
INVARIANTS InvNoDangling
CHECK_DEADLOCK FALSE
