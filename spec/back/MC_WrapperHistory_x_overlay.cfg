SPECIFICATION Spec
CONSTANTS
    Fns <- F4
    MaxSteps = 2
    WriteMode = "overlay"
    OnSerializeError = "fail"
INVARIANTS TypeOK NoDangling NoExtra VariadicUnbound UnsupportedUnbound
CHECK_DEADLOCK FALSE
