----------------------------- MODULE Overloads -----------------------------
(***************************************************************************)
(* Names given to overloaded C++ functions.  Rust has no overloading: the  *)
(* k-th declaration of a name must get an identifier no other declaration  *)
(* of the scope has - including declarations that are LITERALLY called     *)
(* `send1`.                                                                *)
(*                                                                         *)
(* State: the declarations seen so far (in declaration order) and what the *)
(* code has emitted for them.  One action per declaration (Declare), as    *)
(* codegen walks the methods of a class / the functions of a module.       *)
(*                                                                         *)
(* L2, transcribed from codegen/mod.rs:                                    *)
(*   methods (Method::codegen_method): `method_names` is the set of names  *)
(*     emitted in this impl; a name that is taken is suffixed with the     *)
(*     first count >= 1 for which name+count is not taken (probing);       *)
(*   functions (Function::codegen): CodegenResult::overload_number - a      *)
(*     counter per canonical name, the suffix is the counter when it is    *)
(*     > 0 (no probing);                                                   *)
(*   the extern function behind a method: TWO layers - Item::base_name      *)
(*     appends the overload index among the methods of the same name       *)
(*     (ir/item.rs overload_index), then Function::codegen applies the     *)
(*     counter rule to the resulting canonical name.                       *)
(* L1: Unique - the identifiers emitted for one scope are pairwise         *)
(*     distinct.                                                           *)
(* L3: the method rule refines L1 for every declaration sequence; the      *)
(*     function rule does not: recorded finding                            *)
(*     free-function-overload-suffix-collides-with-literal-name, whose     *)
(*     class is characterised here (CounterCollides) and checked to be     *)
(*     EXACTLY the sequences on which the counter rule fails.  The two     *)
(*     layers of the extern names still collide when two names that look   *)
(*     like suffixed spellings of each other are both overloaded: recorded *)
(*     finding method-extern-suffix-collision; ExternUnique must fail,     *)
(*     ExternCollisionNeedsSuffixLikeNames bounds the class.               *)
(* Probing = FALSE is the mutant of the method rule that uses the counter  *)
(* (must fail).                                                            *)
(* Every reachable state is printed; lib/c01_overloads.py renders it as a  *)
(* class and as free functions, runs the real bindgen and compares the     *)
(* emitted names, in order, with both predictions.                         *)
(***************************************************************************)
EXTENDS Naturals, Sequences, FiniteSets, TLC, Json

CONSTANTS Base, MaxDecls, Probing, MaxCtors

VARIABLES decls, mnames, fnames, counter, ebases, enames, nctors
vars == <<decls, mnames, fnames, counter, ebases, enames, nctors>>

Ctor == "<ctor>"            \* a constructor of the class (the class is called Chan)
Class == "Chan"

Range(s) == {s[i] : i \in DOMAIN s}
Suffix(b, k) == b \o ToString(k)

(* first count >= 1 such that b+count is free; bounded by the number of names taken *)
Probe(b, taken) ==
  LET k == CHOOSE k \in 1..(Cardinality(taken) + 1) :
             /\ Suffix(b, k) \notin taken
             /\ \A j \in 1..(k - 1) : Suffix(b, j) \in taken
  IN Suffix(b, k)

CounterName(b) == IF counter[b] > 0 THEN Suffix(b, counter[b]) ELSE b
MethodName(b) ==
  IF Probing THEN (IF b \in Range(mnames) THEN Probe(b, Range(mnames)) ELSE b)
  ELSE CounterName(b)

(* extern function behind a method: base name with the overload index, then the counter over canonical names *)
ExternBase(b) == IF counter[b] > 0 THEN Suffix(b, counter[b]) ELSE b
TimesSeen(x) == Cardinality({i \in DOMAIN ebases : ebases[i] = x})
ExternName(b) == LET x == ExternBase(b) IN IF TimesSeen(x) > 0 THEN Suffix(x, TimesSeen(x)) ELSE x

Init == /\ decls = <<>> /\ mnames = <<>> /\ fnames = <<>> /\ counter = [b \in Base |-> 0]
        /\ ebases = <<>> /\ enames = <<>> /\ nctors = 0
Declare(b) ==
  /\ Len(decls) < MaxDecls /\ nctors = 0            \* CompInfo::codegen walks the methods first, then the constructors
  /\ decls' = Append(decls, b)
  /\ mnames' = Append(mnames, MethodName(b))
  /\ fnames' = Append(fnames, CounterName(b))
  /\ ebases' = Append(ebases, ExternBase(b))
  /\ enames' = Append(enames, ExternName(b))
  /\ counter' = [counter EXCEPT ![b] = @ + 1]
  /\ UNCHANGED nctors
(* a constructor: the wrapper is called `new` (same probing, same set), the extern function is named after the class *)
CtorMethodName ==
  IF Probing THEN (IF "new" \in Range(mnames) THEN Probe("new", Range(mnames)) ELSE "new")
  ELSE (IF nctors > 0 THEN Suffix("new", nctors) ELSE "new")
CtorExternBase == IF nctors > 0 THEN Suffix(Class, nctors) ELSE Class
DeclareCtor ==
  /\ nctors < MaxCtors
  /\ decls' = Append(decls, Ctor)
  /\ mnames' = Append(mnames, CtorMethodName)
  /\ ebases' = Append(ebases, CtorExternBase)
  /\ enames' = Append(enames, LET x == CtorExternBase IN IF TimesSeen(x) > 0 THEN Suffix(x, TimesSeen(x)) ELSE x)
  /\ nctors' = nctors + 1
  /\ UNCHANGED <<fnames, counter>>
Next == (\E b \in Base : Declare(b)) \/ DeclareCtor
Spec == Init /\ [][Next]_vars

Unique(s) == \A i, j \in DOMAIN s : i # j => s[i] # s[j]
UniqueMethods == Unique(mnames)

(* the class of the recorded finding: some declaration is literally called like the counter-suffixed name of *)
(* an overload of another name: base b declared at least k+1 times and a base spelled b+k declared as well   *)
CountOf(b, n) == Cardinality({i \in 1..n : decls[i] = b})
CounterCollides ==
  \E b, c \in Base : \E k \in 1..MaxDecls :
     b # c /\ c = Suffix(b, k) /\ CountOf(b, Len(decls)) > k /\ CountOf(c, Len(decls)) > 0
FunctionsUniqueExactlyOutsideClass == Unique(fnames) <=> ~CounterCollides

(* L1 for the extern names - NOT satisfied by the code (recorded finding method-extern-suffix-collision:      *)
(* `send` and `send1` both overloaded give `Chan_send11` twice); MC_Overloads_x_externUnique must fail.        *)
ExternUnique == Unique(enames)
(* what is checked instead: a collision needs two declared names one of which is a suffixed spelling of the   *)
(* other - classes whose method names do not look like that are safe                                          *)
Spelled == {IF d = Ctor THEN Class ELSE d : d \in Range(decls)}
SuffixLikePair == \E b, c \in Spelled : \E k \in 1..(MaxDecls + MaxCtors) : c = Suffix(b, k)
ExternCollisionNeedsSuffixLikeNames == ~Unique(enames) => SuffixLikePair

(* a declaration that is the first of its name and collides with nothing keeps its name (the user finds it) *)
FirstKeepsName ==
  \A i \in DOMAIN decls :
     (/\ decls[i] # Ctor
      /\ \A j \in 1..(i - 1) : decls[j] # decls[i]
      /\ decls[i] \notin {mnames[j] : j \in 1..(i - 1)})
        => mnames[i] = decls[i]

Emit == PrintT(<<"OVL", ToJson([decls |-> decls, methods |-> mnames, functions |-> fnames, externs |-> enames])>>)
=============================================================================
