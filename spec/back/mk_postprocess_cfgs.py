#!/usr/bin/env python3
"""Regenerates the MC_/Gen_ configuration files of MC_Postprocess.tla (C18).
The .cfg files are checked in; this script only documents how the universes are chosen."""
import os

HERE = os.path.dirname(os.path.abspath(__file__))
ALL9 = ["Type", "Struct", "Const", "Fn", "Enum", "Union", "Static", "Impl", "Use"]
ALLINV = "InvItems InvModules InvMergeKey InvKindOrder InvIdempotent InvApply InvUniform"
L1INV = "InvItems InvModules InvMergeKey InvKindOrder InvIdempotent"


def S(xs):
    return "{" + ", ".join('"%s"' % x for x in xs) + "}"


def cfg(name, inv=ALLINV, **k):
    d = dict(Kinds=["Struct"], Abis=["C", "system"], BAttrs=["none", "a"], FKinds=["FFn"], FAttrs=["none"],
             MaxForeign=1, MaxLen=3, MaxInner=2, MaxDepth=1, MaxNodes=6, UnsChoices=["TRUE"], Uniform="TRUE",
             Mutant="none", Mode="mc")
    d.update(k)
    lines = ["SPECIFICATION Spec", "CONSTANTS"]
    for key in ["Kinds", "Abis", "BAttrs", "FKinds", "FAttrs"]:
        lines.append("  %s = %s" % (key, S(d[key])))
    for key in ["MaxForeign", "MaxLen", "MaxInner", "MaxDepth", "MaxNodes"]:
        lines.append("  %s = %d" % (key, d[key]))
    lines.append("  UnsChoices = {%s}" % ", ".join(d["UnsChoices"]))
    lines.append("  Uniform = %s" % d["Uniform"])
    lines.append('  Mutant = "%s"' % d["Mutant"])
    lines.append('  Mode = "%s"' % d["Mode"])
    lines.append("INVARIANTS " + inv)
    lines.append("CHECK_DEADLOCK FALSE")
    with open(os.path.join(HERE, name + ".cfg"), "w") as f:
        f.write("\n".join(lines) + "\n")


FS = ["FFn", "FStatic"]
ABC = ["none", "a", "b"]
# ---- bounded model checking, quick tier (about 1.9M states together)
cfg("MC_Postprocess_sort_q", Kinds=ALL9, Abis=["C"], BAttrs=["none"], MaxLen=4, MaxNodes=4)
cfg("MC_Postprocess_merge_q", Kinds=["Struct"], FKinds=FS, MaxLen=4, MaxDepth=0, MaxNodes=8)
cfg("MC_Postprocess_attrs_q", Kinds=["Fn"], Abis=["C"], FKinds=FS, FAttrs=ABC, MaxForeign=2, MaxLen=2, MaxInner=1,
    MaxNodes=6)
cfg("MC_Postprocess_nest_q", Kinds=["Struct", "Use"], Abis=["C"], MaxLen=3, MaxInner=3, MaxDepth=2, MaxNodes=5)
cfg("MC_Postprocess_uns_q", Kinds=["Static"], UnsChoices=["TRUE", "FALSE"], MaxLen=3, MaxNodes=4)
cfg("MC_Postprocess_keyUnsafety_q", UnsChoices=["TRUE", "FALSE"], Uniform="FALSE", Mutant="merge_key_unsafety",
    MaxLen=3, MaxDepth=0, inv=L1INV)
# ---- thorough tier
cfg("MC_Postprocess_sort_t", Kinds=ALL9, Abis=["C"], BAttrs=["none"], MaxLen=5, MaxNodes=5)
cfg("MC_Postprocess_sort6_t", Kinds=["Type", "Struct", "Fn", "Static", "Impl", "Use"], Abis=["C"], BAttrs=["none"],
    MaxForeign=0, MaxLen=6, MaxDepth=0, MaxNodes=6)
cfg("MC_Postprocess_merge_t", Kinds=["Struct", "Fn"], MaxLen=5, MaxDepth=0, MaxNodes=10)
cfg("MC_Postprocess_merge6_t", Kinds=[], MaxLen=6, MaxDepth=0, MaxNodes=12)
cfg("MC_Postprocess_full_t", Kinds=ALL9, BAttrs=ABC, FKinds=FS, FAttrs=["none", "b"], MaxLen=3, MaxInner=2, MaxNodes=5)
cfg("MC_Postprocess_attrs_t", Kinds=["Fn"], BAttrs=ABC, FKinds=FS, FAttrs=ABC, MaxForeign=2, MaxLen=2, MaxInner=1,
    MaxNodes=6)
cfg("MC_Postprocess_nest_t", Kinds=["Struct", "Use"], Abis=["C"], MaxLen=4, MaxInner=3, MaxDepth=2, MaxNodes=6)
cfg("MC_Postprocess_uns_t", Kinds=["Static"], UnsChoices=["TRUE", "FALSE"], MaxLen=4, MaxNodes=6)
# the key with unsafety would satisfy L1 on arbitrary (non-uniform) sequences
cfg("MC_Postprocess_keyUnsafety_t", UnsChoices=["TRUE", "FALSE"], Uniform="FALSE", Mutant="merge_key_unsafety",
    MaxLen=4, MaxDepth=0, MaxNodes=8, inv=L1INV)
# ---- sensitivity: mechanism removed => TLC must produce the counterexample
SMALL = dict(MaxLen=3, MaxDepth=0, MaxNodes=4)
cfg("MC_Postprocess_x_ignoreAttrs", inv="InvMergeKey", Mutant="merge_ignore_attrs", **SMALL)
cfg("MC_Postprocess_x_ignoreAbi", inv="InvMergeKey", Mutant="merge_ignore_abi", **SMALL)
cfg("MC_Postprocess_x_dropBlock", inv="InvItems", Mutant="merge_drop", **SMALL)
cfg("MC_Postprocess_x_dupBlock", inv="InvItems", Mutant="merge_dup", **SMALL)
cfg("MC_Postprocess_x_rotate", inv="InvIdempotent", Mutant="merge_rotate", **SMALL)
cfg("MC_Postprocess_x_unstableSort", inv="InvKindOrder", Mutant="unstable_sort", **SMALL)
cfg("MC_Postprocess_x_hoist", inv="InvItems", Mutant="merge_hoist", Abis=["C"], BAttrs=["none"], MaxLen=2, MaxInner=2,
    MaxDepth=1, MaxNodes=4)
cfg("MC_Postprocess_x_unnest", inv="InvModules", Mutant="sort_unnest", Abis=[], MaxLen=2, MaxInner=2, MaxDepth=2,
    MaxNodes=4)
# latent: arbitrary sequences with mixed unsafety (not reachable from one generation)
cfg("MC_Postprocess_x_mixedUnsafety", inv="InvMergeKey", UnsChoices=["TRUE", "FALSE"], Uniform="FALSE", **SMALL)
# ---- behaviour generators (binding R): Mode = "gen"
cfg("Gen_Postprocess_q", inv="Emit", Mode="gen", Kinds=["Struct", "Use"], FAttrs=["none", "a"], MaxLen=3, MaxInner=2,
    MaxDepth=1, MaxNodes=4)
cfg("Gen_Postprocess_len_q", inv="Emit", Mode="gen", Kinds=["Struct", "Type"], Abis=["C"], MaxLen=4, MaxDepth=0,
    MaxNodes=8)
cfg("Gen_Postprocess_t", inv="Emit", Mode="gen", Kinds=ALL9, BAttrs=ABC, FKinds=FS, FAttrs=["none", "b"], MaxLen=3,
    MaxInner=2, MaxDepth=1, MaxNodes=4)
cfg("Gen_Postprocess_len_t", inv="Emit", Mode="gen", Kinds=["Struct"], Abis=["C"], MaxLen=6, MaxDepth=0, MaxNodes=12)
