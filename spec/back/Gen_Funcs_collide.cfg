SPECIFICATION Spec
CONSTANTS
  NFns = 2
  MinArity = 0
  MaxArity = 0
  Kinds = {"fn"}
  Shapes = {"keyword","kwtail","dollar","dollartail"}
  ArgSet = "reps"
  RetSet = "int"
  OptSet = "none"
  FixedToks = TRUE
  Pad = FALSE
INVARIANTS Emitted UniqueIdents PredictedSymbolsOK
CHECK_DEADLOCK FALSE
