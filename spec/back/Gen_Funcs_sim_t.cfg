SPECIFICATION Spec
CONSTANTS
  NFns = 36
  MinArity = 0
  MaxArity = 8
  Kinds = {"fn","variadic","noreturn","msabi","inline","static","vectorcall","gvar"}
  Shapes = {"plain","keyword","dollar","asm","renamed"}
  ArgSet = "all"
  RetSet = "all"
  OptSet = "all"
  FixedToks = FALSE
  Pad = FALSE
INVARIANTS Emitted UniqueIdents PredictedSymbolsOK
CHECK_DEADLOCK FALSE
