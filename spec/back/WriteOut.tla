------------------------------ MODULE WriteOut ------------------------------
(***************************************************************************)
(* C15: what `Bindings::write` puts into the sink, segment by segment:     *)
(* header comment (unless disabled), the raw lines in the order given, one *)
(* separator line iff there are raw lines, then the body - the formatter's *)
(* text, or the unformatted tokens when format_tokens returns Ok(source)   *)
(* or Err.  The outcome of format_tokens is the result class decided by    *)
(* Formatter.tla; here it is a nondeterministic choice.                    *)
(* Mode "code" is the implementation; the other modes are mutants that the *)
(* sensitivity configurations require to fail.                             *)
(***************************************************************************)
EXTENDS Naturals, Sequences, TLC, Json, FormatterRules

CONSTANTS Headers,    \* subset of BOOLEAN: header comment enabled?
          NRaws,      \* numbers of raw lines explored
          Outcomes,   \* {"Formatted", "Source", "Err"}
          Mode        \* "code" | "sepAlways" | "preludeAgainOnFallback"

VARIABLES header, nraw, outcome, pc, i, emitted, wres
vars == <<header, nraw, outcome, pc, i, emitted, wres>>

Init == /\ header \in Headers /\ nraw \in NRaws /\ outcome \in Outcomes
        /\ pc = "header" /\ i = 0 /\ emitted = <<>> /\ wres = "none"

Prelude(h, n) == PreludeSegs(h, n)

EmitHeader == /\ pc = "header"
              /\ emitted' = IF header THEN Append(emitted, <<"header">>) ELSE emitted
              /\ pc' = "raw" /\ UNCHANGED <<header, nraw, outcome, i, wres>>
EmitRaw == /\ pc = "raw" /\ i < nraw
           /\ emitted' = Append(emitted, Raw(i + 1)) /\ i' = i + 1
           /\ UNCHANGED <<header, nraw, outcome, pc, wres>>
EmitSep == /\ pc = "raw" /\ i = nraw
           /\ emitted' = IF nraw > 0 \/ Mode = "sepAlways" THEN Append(emitted, <<"sep">>) ELSE emitted
           /\ pc' = "body" /\ UNCHANGED <<header, nraw, outcome, i, wres>>
EmitBody == /\ pc = "body"
            /\ emitted' = CASE outcome = "Formatted" -> Append(emitted, <<"body", "formatted">>)
                            [] outcome = "Source" -> Append(emitted, <<"body", "tokens">>)
                            [] OTHER -> (IF Mode = "preludeAgainOnFallback"
                                           THEN emitted \o Prelude(header, nraw) ELSE emitted)
                                        \o <<<<"body", "tokens">>>>
            /\ wres' = "Ok" /\ pc' = "done" /\ UNCHANGED <<header, nraw, outcome, i>>
Stutter == pc = "done" /\ UNCHANGED vars
Next == EmitHeader \/ EmitRaw \/ EmitSep \/ EmitBody \/ Stutter
Spec == Init /\ [][Next]_vars

BodyKind == BodyContent(IF outcome = "Err" THEN "Fallback" ELSE outcome)
Expected == Prelude(header, nraw) \o <<<<"body", BodyKind>>>>
\* each segment exactly once and in order; the fallback body is the unformatted tokens
OnceInOrder == pc = "done" => emitted = Expected /\ wres = "Ok"
\* nothing is ever emitted twice, also on the way
NoDup == \A a, b \in DOMAIN emitted : a # b => emitted[a] # emitted[b]
Emitted == pc = "done" =>
  PrintT(<<"WRITEOUT", ToJson([header |-> header, nraw |-> nraw, outcome |-> outcome,
                               segments |-> [j \in DOMAIN emitted |-> emitted[j][1]],
                               body |-> BodyKind])>>)
=============================================================================
