SPECIFICATION Spec
CONSTANTS
  NFns = 1
  MinArity = 1
  MaxArity = 1
  Kinds = {"static","static_inline","extern","inline_extern","variadic_static","valist1","valist2","valist_only"}
  Shapes = {"plain"}
  ArgSet = "mini"
  RetSet = "int"
  OptSet = "cb"
  FixedToks = TRUE
INVARIANTS Emitted PredictedBijection
CHECK_DEADLOCK FALSE
