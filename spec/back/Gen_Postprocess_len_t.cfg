SPECIFICATION Spec
CONSTANTS
  Kinds = {"Struct"}
  Abis = {"C"}
  BAttrs = {"none", "a"}
  FKinds = {"FFn"}
  FAttrs = {"none"}
  MaxForeign = 1
  MaxLen = 6
  MaxInner = 2
  MaxDepth = 0
  MaxNodes = 12
  UnsChoices = {TRUE}
  Uniform = TRUE
  Mutant = "none"
  Mode = "gen"
INVARIANTS Emit
CHECK_DEADLOCK FALSE
