------------------------------- MODULE Consts -------------------------------
(***************************************************************************)
(* C05 - constants carry the C compiler's value in a type that can hold it *)
(*                                                                         *)
(* L1 (reference): the integers cut into threshold REGIONS, the Rust       *)
(*   integer kinds as intervals of regions, the predicates of the property *)
(*   (Holds, SameSign, EmittedImpliesEqual, OmissionAllowed), the C        *)
(*   preprocessor's macro table (lazy expansion, #undef, re-#define), the  *)
(*   C rule for the underlying type of an enum, the C typing rules of      *)
(*   integer literals and operators.                                       *)
(* L2 (what bindgen does): ir/var.rs - the i64 evaluator channel, the      *)
(*   transcription of default_macro_constant_type, parsed_macros with      *)
(*   "note before the duplicate test, first definition emitted, #undef     *)
(*   ignored, references resolved at definition time"; codegen - enum      *)
(*   styles, translate_enum_integer_types, prepend_enum_name, const        *)
(*   variables printed by the signedness of their C type.                  *)
(*                                                                         *)
(* TLC integers are 32-bit: no 64-bit number appears anywhere.  A value is *)
(* known by its region (or, in the enum model, as boundary+small offset).  *)
(***************************************************************************)
EXTENDS Integers, Sequences, FiniteSets, TLC

(***************************************************************************)
(* The symbolic number line.  Boundary b (1..13) is the number named       *)
(* BName[b]; region k (1..12) is [B[k], B[k+1]-1]; region 0 is everything  *)
(* below i64min, region 13 everything above u64max.                        *)
(***************************************************************************)
BName == <<"i64min", "i32min", "i16min", "i8min", "0", "i8max+1", "u8max+1", "i16max+1", "u16max+1",
           "i32max+1", "u32max+1", "i64max+1", "u64max+1">>
RegionName == [r \in 0..14 |->
  CASE r = 0 -> "below-i64min" [] r = 1 -> "i64min..i32min-1" [] r = 2 -> "i32min..i16min-1"
    [] r = 3 -> "i16min..i8min-1" [] r = 4 -> "i8min..-1" [] r = 5 -> "0..i8max" [] r = 6 -> "i8max+1..u8max"
    [] r = 7 -> "u8max+1..i16max" [] r = 8 -> "i16max+1..u16max" [] r = 9 -> "u16max+1..i32max"
    [] r = 10 -> "i32max+1..u32max" [] r = 11 -> "u32max+1..i64max" [] r = 12 -> "i64max+1..u64max"
    [] r = 13 -> "above-u64max" [] r = 14 -> "n/a"]
Regions == 1..12            \* the values a C integer constant expression of <= 64 bits can have
I64Regions == 1..11         \* what fits the evaluator's i64
Neg(r) == r <= 4

IntKinds == {"i8", "u8", "i16", "u16", "i32", "u32", "i64", "u64"}
Signed(k) == k \in {"i8", "i16", "i32", "i64", "i128"}
Width(k) == CASE k \in {"i8", "u8"} -> 8 [] k \in {"i16", "u16"} -> 16 [] k \in {"i32", "u32"} -> 32 [] OTHER -> 64
KindOf(w, s) == CASE w = 8 -> IF s THEN "i8" ELSE "u8" [] w = 16 -> IF s THEN "i16" ELSE "u16"
                  [] w = 32 -> IF s THEN "i32" ELSE "u32" [] w = 64 -> IF s THEN "i64" ELSE "u64"
                  [] OTHER -> IF s THEN "i128" ELSE "u128"
(* the regions a kind covers (i128 / u128 only occur as types of const variables) *)
Lo(k) == CASE k = "i8" -> 4 [] k = "i16" -> 3 [] k = "i32" -> 2 [] k = "i64" -> 1 [] k = "i128" -> 0 [] OTHER -> 5
Hi(k) == CASE k = "i8" -> 5 [] k = "u8" -> 6 [] k = "i16" -> 7 [] k = "u16" -> 8 [] k = "i32" -> 9
           [] k = "u32" -> 10 [] k = "i64" -> 11 [] k = "u64" -> 12 [] OTHER -> 13

(***************************************************************************)
(* Property predicates                                                     *)
(***************************************************************************)
Holds(k, r) == r \in Lo(k)..Hi(k)
(* the sign of the C value survives: a negative value needs a signed type  *)
(* and arrives negative, a value above i64max needs an unsigned type       *)
SameSign(k, creg, rreg) == /\ Neg(creg) <=> Neg(rreg)
                           /\ Neg(creg) => Signed(k)
                           /\ creg = 12 => ~Signed(k)
(* o: [emitted, cdef (the C compiler has a value), equal]                   *)
EmittedImpliesEqual(o) == (o.emitted /\ o.cdef) => o.equal
OmissionAllowed(o) == ~o.emitted => TRUE

(***************************************************************************)
(* L2: default_macro_constant_type (ir/var.rs), transcribed on regions.    *)
(* "value < T::MIN" is "region < index of T::MIN", "value > T::MAX" is     *)
(* "region >= index of T::MAX+1".  The cut points are named so that a      *)
(* sensitivity configuration can move one of them.                         *)
(***************************************************************************)
CutI32Min == 2  CutI16Min == 3  CutI8Min == 4
CutI8Max == 6   CutU8Max == 7   CutI16Max == 8  CutU16Max == 9
CutI32Max == 10 CutU32Max == 11
Opts == [signed : BOOLEAN, fit : BOOLEAN]

Kind(r, o) ==
  IF Neg(r) \/ o.signed THEN
    IF r < CutI32Min \/ r >= CutI32Max THEN "i64"
    ELSE IF ~o.fit \/ r < CutI16Min \/ r >= CutI16Max THEN "i32"
    ELSE IF r < CutI8Min \/ r >= CutI8Max THEN "i16"
    ELSE "i8"
  ELSE IF r >= CutU32Max THEN "u64"
  ELSE IF ~o.fit \/ r >= CutU16Max THEN "u32"
  ELSE IF r >= CutU8Max THEN "u16"
  ELSE "u8"

(* The evaluator (cexpr / EvalResult::as_int) hands every integer over as  *)
(* an i64: a C value above i64max arrives bit-cast, somewhere in the       *)
(* negative half.  SeenAs(c) = the regions in which the code can see a     *)
(* value whose C region is c.                                              *)
SeenAs(c) == IF c \in I64Regions THEN {c} ELSE IF c = 12 THEN {1, 2, 3, 4} ELSE {}

(* --- obligations on Kind ------------------------------------------------ *)
(* what the code can guarantee: the kind holds the value *it sees*          *)
KindSound == \A r \in I64Regions, o \in Opts :
               /\ Holds(Kind(r, o), r)
               /\ SameSign(Kind(r, o), r, r)
(* unsigned by default means unsigned whenever the value allows it          *)
KindDefaultRespected == \A r \in I64Regions, o \in Opts :
               /\ (~o.signed /\ ~Neg(r)) => ~Signed(Kind(r, o))
               /\ o.signed => Signed(Kind(r, o))
(* fit-macro-constant-types picks the narrowest kind of that signedness     *)
KindFitMinimal == \A r \in I64Regions, o \in Opts : o.fit =>
               \A k \in IntKinds : (Signed(k) = Signed(Kind(r, o)) /\ Holds(k, r)) => Width(k) >= Width(Kind(r, o))
KindNoFitAtLeast32 == \A r \in I64Regions, o \in Opts : ~o.fit => Width(Kind(r, o)) >= 32
(* what the property asks: the kind holds the value *C has*.  False for     *)
(* region 12 through the i64 channel - a model-level counterexample that    *)
(* the check replays on the real code (#define X 0xFFFFFFFFFFFFFFFFULL).    *)
ChannelSound == \A c \in Regions, o \in Opts : \A s \in SeenAs(c) :
               /\ Holds(Kind(s, o), c)
               /\ SameSign(Kind(s, o), c, s)

(***************************************************************************)
(* Const variables: the value travels through the same i64 channel, but    *)
(* codegen prints it by the signedness of the variable's own C type        *)
(* (int_expr / uint_expr(val as u64)), which undoes the bit-cast.           *)
(***************************************************************************)
ScalarInts == {[w |-> w, s |-> s] : w \in {8, 16, 32, 64}, s \in BOOLEAN}
PrintBySign == TRUE      \* sensitivity: FALSE = always int_expr
VarPrinted(t, seen) == IF PrintBySign /\ ~t.s /\ Neg(seen) THEN 12 ELSE seen
VarSound == \A t \in ScalarInts : \A c \in Regions : Holds(KindOf(t.w, t.s), c) =>
              \A s \in SeenAs(c) : /\ VarPrinted(t, s) = c
                                   /\ SameSign(KindOf(t.w, t.s), c, VarPrinted(t, s))

(***************************************************************************)
(* The macro table.                                                        *)
(*  L1: the preprocessor: #define n body / #undef n; a use of n after the  *)
(*      header expands lazily through the *current* table.                 *)
(*  L2: parse_macro evaluates the body against parsed_macros at the        *)
(*      definition; a body it cannot evaluate is skipped *without touching *)
(*      the table*; otherwise the table entry is overwritten ("note")      *)
(*      before the duplicate test and only a first definition becomes a    *)
(*      constant; #undef is not seen at all.                               *)
(* Bodies [t, m, v]: t = "lit" (v), "ref" (m), "add" ((m + v)), "rawadd"   *)
(*         (m + v, not parenthesised), "mul2" (m * 2), "unsup" (an integer *)
(*         expression of value v outside the evaluator's grammar, e.g.     *)
(*         (v ? v : v)).                                                   *)
(***************************************************************************)
None == -1
NoDef == [t |-> "none", m |-> "", v |-> 0]
(* C expands macros textually: `M * 2` with `#define M X + 1` is X + 1 * 2.   *)
(* An expansion is kept as <<rest, last>>: the text is an additive chain whose *)
(* value is rest + last and a following `* 2` binds to `last` only.  With      *)
(* textual = FALSE every reference is treated as if it were parenthesised      *)
(* (what an evaluator that substitutes *values* computes).                     *)
Expansion(defs, n, textual) ==
  LET RECURSIVE Go(_, _)
      Go(x, seen) ==
        IF x \in seen \/ defs[x].t = "none" THEN <<None, None>>
        ELSE LET b == defs[x]
                 e == IF b.t \in {"lit", "unsup"} THEN <<0, 0>> ELSE Go(b.m, seen \cup {x})
                 P(r) == IF textual THEN r ELSE <<0, r[1] + r[2]>>      \* parenthesise the referent
             IN IF e[1] = None THEN e
                ELSE CASE b.t \in {"lit", "unsup"} -> <<0, b.v>>
                       [] b.t = "ref" -> e
                       [] b.t = "add" -> <<0, e[1] + e[2] + b.v>>
                       [] b.t = "rawadd" -> <<P(e)[1] + P(e)[2], b.v>>
                       [] b.t = "mul2" -> <<P(e)[1], P(e)[2] * 2>>
  IN Go(n, {})
CVal(defs, n) == LET e == Expansion(defs, n, TRUE) IN IF e[1] = None THEN None ELSE e[1] + e[2]
CValParen(defs, n) == LET e == Expansion(defs, n, FALSE) IN IF e[1] = None THEN None ELSE e[1] + e[2]

Eval(parsed, b) ==
  CASE b.t = "lit" -> b.v
    [] b.t = "unsup" -> None
    [] b.t = "ref" -> parsed[b.m]
    [] b.t \in {"add", "rawadd"} -> IF parsed[b.m] = None THEN None ELSE parsed[b.m] + b.v
    [] b.t = "mul2" -> IF parsed[b.m] = None THEN None ELSE parsed[b.m] * 2

(* one directive; st = [defs, parsed, emitted]                              *)
DoDefine(st, n, b) ==
  LET v == Eval(st.parsed, b) IN
  [defs |-> [st.defs EXCEPT ![n] = b],
   parsed |-> IF v = None THEN st.parsed ELSE [st.parsed EXCEPT ![n] = v],
   emitted |-> IF v = None \/ st.parsed[n] # None THEN st.emitted ELSE [st.emitted EXCEPT ![n] = v]]
DoUndef(st, n) == [st EXCEPT !.defs[n] = NoDef]

(***************************************************************************)
(* Enums.  A value is boundary b plus a small offset: <<b, off>>,          *)
(* off \in -2..2 (the gaps between boundaries are >= 128, so the           *)
(* representation is unique and ordered lexicographically).                *)
(***************************************************************************)
RegionOf(v) == IF v[2] < 0 THEN v[1] - 1 ELSE v[1]
SuccV(v) == <<v[1], v[2] + 1>>
LessV(a, b) == a[1] < b[1] \/ (a[1] = b[1] /\ a[2] < b[2])

CTy(w, s) == [w |-> w, s |-> s]
NoFixed == CTy(0, FALSE)
(* the enumerator values of a declaration: Imp = previous + 1 (0 first)     *)
Imp == <<0, 0>>
EnumVals(specs) ==
  LET RECURSIVE Go(_, _)
      Go(i, acc) == IF i > Len(specs) THEN acc
                    ELSE LET v == IF specs[i] = Imp
                                   THEN (IF i = 1 THEN <<5, 0>> ELSE SuccV(acc[i - 1]))
                                   ELSE specs[i]
                         IN Go(i + 1, Append(acc, v))
  IN Go(1, <<>>)
(* L1: clang's rule (Sema::ActOnEnumBody) for the underlying type, x86_64   *)
Underlying(fixed, vals) ==
  IF fixed # NoFixed THEN fixed
  ELSE LET regs == {RegionOf(vals[i]) : i \in DOMAIN vals}
           neg == \E r \in regs : Neg(r)
       IN IF neg THEN (IF \A r \in regs : r \in 2..9 THEN CTy(32, TRUE) ELSE CTy(64, TRUE))
          ELSE (IF \A r \in regs : r \in 5..10 THEN CTy(32, FALSE) ELSE CTy(64, FALSE))
ValidEnum(fixed, vals) ==
  /\ \A i \in DOMAIN vals : RegionOf(vals[i]) \in Regions /\ vals[i][2] \in -2..2
  /\ IF fixed # NoFixed THEN \A i \in DOMAIN vals : Holds(KindOf(fixed.w, fixed.s), RegionOf(vals[i]))
     ELSE ~(\E i, j \in DOMAIN vals : Neg(RegionOf(vals[i])) /\ RegionOf(vals[j]) = 12)

Styles == {"consts", "moduleconsts", "newtype", "bitfield", "rust"}
(* L2: Enum::from_ty extracts every value through the signedness of the     *)
(* repr type; Enum::codegen keeps the C repr type unless the style is a     *)
(* Rust enum or translation was asked for, in which case the type is        *)
(* rebuilt from (signed, size) with a table whose fall-through is i32.      *)
TranslateRows == {<<TRUE, 8>>, <<FALSE, 8>>, <<TRUE, 16>>, <<FALSE, 16>>, <<TRUE, 32>>, <<FALSE, 32>>,
                  <<TRUE, 64>>, <<FALSE, 64>>}
Translated(t) == IF <<t.s, t.w>> \in TranslateRows THEN t ELSE CTy(32, TRUE)
EnumRepr(style, translate, under) == IF translate \/ style = "rust" THEN Translated(under) ELSE under
ExtractBySign == TRUE    \* sensitivity: FALSE = always enum_val_signed
(* the region in which the extracted value is printed                       *)
EnumSeen(under, v) == IF RegionOf(v) = 12 /\ (under.s \/ ~ExtractBySign) THEN 4 ELSE RegionOf(v)
(* names: "E_V" for the constants style with prepend_enum_name, "V" without *)
(* it; the other styles scope V inside E (module, impl, enum)               *)
EnumConstName(style, prepend, e, v) ==
  IF style = "consts" THEN (IF prepend THEN <<e, "_", v>> ELSE <<v>>) ELSE <<e, "::", v>>
(* a Rust enum cannot repeat a discriminant: later duplicates become        *)
(* associated constants that name the first variant with that value         *)
RustVariants(vals) == {i \in DOMAIN vals : \A j \in 1..(i - 1) : vals[j] # vals[i]}
RustAliasOf(vals, i) == CHOOSE j \in RustVariants(vals) : vals[j] = vals[i]

EnumSound(fixed, specs) ==
  LET vals == EnumVals(specs)
      under == Underlying(fixed, vals)
  IN ValidEnum(fixed, vals) =>
     \A style \in Styles, translate \in BOOLEAN :
       LET repr == EnumRepr(style, translate, under) IN
       /\ repr = under                                                     \* (width, sign) kept
       /\ \A i \in DOMAIN vals :
            /\ EnumSeen(under, vals[i]) = RegionOf(vals[i])                \* value kept
            /\ Holds(KindOf(repr.w, repr.s), RegionOf(vals[i]))            \* and representable
       /\ style = "rust" => \A i \in DOMAIN vals : vals[RustAliasOf(vals, i)] = vals[i]

(***************************************************************************)
(* C typing of integer literals and operators (LP64), used by the          *)
(* expression generator to predict the C type the probe must observe.      *)
(* A type is [w, s] with w \in {32, 64}; long and long long are both 64.   *)
(***************************************************************************)
LitType(radix, reg, suf) ==
  LET u == suf \in {"u", "ul", "ull"}
      l == suf \in {"l", "ul", "ll", "ull"}
      dec == radix = "dec"
  IN IF u THEN (IF ~l /\ reg <= 10 THEN CTy(32, FALSE) ELSE CTy(64, FALSE))
     ELSE IF l THEN (IF reg <= 11 THEN CTy(64, TRUE) ELSE CTy(64, FALSE))
     ELSE IF reg <= 9 THEN CTy(32, TRUE)
     ELSE IF reg = 10 THEN (IF dec THEN CTy(64, TRUE) ELSE CTy(32, FALSE))
     ELSE IF reg = 11 THEN CTy(64, TRUE)
     ELSE CTy(64, FALSE)
Promote(t) == IF t.w < 32 THEN CTy(32, TRUE) ELSE t
Usual(a0, b0) ==
  LET a == Promote(a0) b == Promote(b0) IN
  IF a = b THEN a
  ELSE IF a.w = b.w THEN CTy(a.w, FALSE)
  ELSE IF a.w > b.w THEN a ELSE b
=============================================================================
