SPECIFICATION Spec
CONSTANTS
  Target = "macho"
  NoMangling = TRUE
INVARIANT Emitted
CHECK_DEADLOCK FALSE
