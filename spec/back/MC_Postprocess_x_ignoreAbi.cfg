SPECIFICATION Spec
CONSTANTS
  Kinds = {"Struct"}
  Abis = {"C", "system"}
  BAttrs = {"none", "a"}
  FKinds = {"FFn"}
  FAttrs = {"none"}
  MaxForeign = 1
  MaxLen = 3
  MaxInner = 2
  MaxDepth = 0
  MaxNodes = 4
  UnsChoices = {TRUE}
  Uniform = TRUE
  Mutant = "merge_ignore_abi"
  Mode = "mc"
INVARIANTS InvMergeKey
CHECK_DEADLOCK FALSE
