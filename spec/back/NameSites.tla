----------------------------- MODULE NameSites -----------------------------
(***************************************************************************)
(* Every place where a C name becomes a Rust identifier ("site"), and the  *)
(* identifier the code writes there.  Names.tla models the mangling        *)
(* function; this module models its USE: a site that forgets to mangle     *)
(* (or mangles before composing where it must mangle after) emits a        *)
(* reserved word and the bindings do not compile (C01).                    *)
(*                                                                         *)
(* L1  RustReserved: the words the Rust reference reserves in any edition   *)
(*     (strict, reserved, 2018+, 2024 `gen`) plus `_`, which is not an      *)
(*     identifier.  An emitted identifier is never one of them; a name      *)
(*     that is no reserved word is kept verbatim where the user will look   *)
(*     for it (Faithful).                                                   *)
(* L2  BindgenList: the list of BindgenContext::rust_mangle (context.rs),   *)
(*     transcribed - it also holds primitive type names, which may not be   *)
(*     shadowed.  SiteIdent: what each site of codegen writes - transcribed *)
(*     from codegen/mod.rs (Item names, fields, bit-field accessors,        *)
(*     arguments, EnumBuilder::with_variant per enum style, constants).     *)
(* L3  SiteSafe: SiteIdent(..) \notin RustReserved for every site and name. *)
(*     Unmangled is the set of sites of a mutant that writes the C name as  *)
(*     it is (must fail for any non-empty set of mangling sites).           *)
(* The generator prints one line per (site, name): the header exercising   *)
(* that site is rendered by lib/c01_sites.py, the real bindgen is run and  *)
(* the predicted identifier must stand at the predicted place.             *)
(***************************************************************************)
EXTENDS Naturals, Sequences, FiniteSets, TLC, Json

CONSTANTS Unmangled, Universe

(* The Rust reference, "Keywords" (all editions) *)
RustStrict == {"as", "break", "const", "continue", "crate", "else", "enum", "extern", "false", "fn", "for", "if",
               "impl", "in", "let", "loop", "match", "mod", "move", "mut", "pub", "ref", "return", "self", "Self",
               "static", "struct", "super", "trait", "true", "type", "unsafe", "use", "where", "while",
               "async", "await", "dyn"}
RustReservedWords == {"abstract", "become", "box", "do", "final", "macro", "override", "priv", "typeof", "unsized",
                      "virtual", "yield", "try", "gen"}
RustReserved == RustStrict \cup RustReservedWords \cup {"_"}

(* context.rs rust_mangle *)
BindgenList == {"abstract", "alignof", "as", "async", "await", "become", "box", "break", "const", "continue", "crate",
                "do", "dyn", "else", "enum", "extern", "false", "final", "fn", "for", "gen", "if", "impl", "in", "let",
                "loop", "macro", "match", "mod", "move", "mut", "offsetof", "override", "priv", "proc", "pub", "pure",
                "ref", "return", "Self", "self", "sizeof", "static", "struct", "super", "trait", "true", "try", "type",
                "typeof", "unsafe", "unsized", "use", "virtual", "where", "while", "yield", "str", "bool", "f32", "f64",
                "usize", "isize", "u128", "i128", "u64", "i64", "u32", "i32", "u16", "i16", "u8", "i8", "_"}

ASSUME RustReserved \subseteq BindgenList

(* words that cannot be spelled as a C identifier (C17 keywords; GNU `typeof`) *)
CKeywords == {"break", "const", "continue", "do", "else", "enum", "extern", "for", "if", "return", "sizeof", "static",
              "struct", "while", "typeof"}
Controls == {"plain", "typed", "selfish"}
AllNames == (BindgenList \ CKeywords) \cup Controls

M(n) == IF n \in BindgenList THEN n \o "_" ELSE n

(* sites: the place, and how the identifier is composed there *)
PlainSites == {"struct", "union", "enumtype", "typedef", "field", "fn", "arg", "var", "macro", "bf_get", "bf_ctor_arg",
               "variant_consts_anon", "variant_rust", "variant_rust_alias", "variant_module", "variant_newtype",
               "variant_bitfield", "namespace", "method", "static_method", "tparam", "tparam_use"}
ComposedSites == {"method_extern", "bf_set", "bf_get_raw", "bf_set_raw", "variant_consts_named", "variant_consts_kwenum"}
Sites == PlainSites \cup ComposedSites
(* C++ sites: the words C++ itself reserves cannot be spelled there *)
CxxSites == {"namespace", "method", "static_method", "method_extern", "tparam", "tparam_use"}
CxxKeywords == CKeywords \cup {"alignof", "bool", "false", "true", "try", "virtual"}
SiteNames(s) == IF s \in CxxSites THEN AllNames \ CxxKeywords ELSE AllNames

Mg(site, n) == IF site \in Unmangled THEN n ELSE M(n)

SiteIdent(site, n) ==
  CASE site = "bf_set" -> "set_" \o n
    [] site = "bf_get_raw" -> Mg(site, n) \o "_raw"
    [] site = "bf_set_raw" -> "set_" \o n \o "_raw"
    [] site = "method_extern" -> "holder_" \o n                         \* the extern function behind the method wrapper
    [] site = "variant_consts_named" -> "E_" \o Mg(site, n)            \* enum E { n }
    [] site = "variant_consts_kwenum" -> "box__" \o Mg(site, n)       \* enum box { n }: mangled enum name, '_', variant
    [] OTHER -> Mg(site, n)

VARIABLES site, name
vars == <<site, name>>
Init == site \in Sites /\ name \in Universe \cap SiteNames(site)
Next == UNCHANGED vars
Spec == Init /\ [][Next]_vars

SiteSafe == SiteIdent(site, name) \notin RustReserved
Faithful == (site \in PlainSites /\ name \notin BindgenList) => SiteIdent(site, name) = name
(* a composed identifier never needs (and never gets) a trailing underscore of its own *)
ComposedStable == site \in {"bf_set", "bf_set_raw", "method_extern"} => SiteIdent(site, name) \notin BindgenList
Emit == PrintT(<<"SITE", ToJson([site |-> site, name |-> name, ident |-> SiteIdent(site, name)])>>)
=============================================================================
