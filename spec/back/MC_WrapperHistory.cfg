SPECIFICATION Spec
CONSTANTS
    Fns <- F6
    MaxSteps = 3
    WriteMode = "replace"
    OnSerializeError = "fail"
INVARIANTS TypeOK NoDangling NoExtra VariadicUnbound UnsupportedUnbound
CHECK_DEADLOCK FALSE
