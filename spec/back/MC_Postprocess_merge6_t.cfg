SPECIFICATION Spec
CONSTANTS
  Kinds = {}
  Abis = {"C", "system"}
  BAttrs = {"none", "a"}
  FKinds = {"FFn"}
  FAttrs = {"none"}
  MaxForeign = 1
  MaxLen = 6
  MaxInner = 2
  MaxDepth = 0
  MaxNodes = 12
  UnsChoices = {TRUE}
  Uniform = TRUE
  Mutant = "none"
  Mode = "mc"
INVARIANTS InvItems InvModules InvMergeKey InvKindOrder InvIdempotent InvApply InvUniform
CHECK_DEADLOCK FALSE
