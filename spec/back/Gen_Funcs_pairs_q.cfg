SPECIFICATION Spec
CONSTANTS
  NFns = 1
  MinArity = 2
  MaxArity = 2
  Kinds = {"fn"}
  Shapes = {"plain"}
  ArgSet = "reps"
  RetSet = "int"
  OptSet = "none"
  FixedToks = TRUE
  Pad = FALSE
INVARIANTS Emitted UniqueIdents PredictedSymbolsOK
CHECK_DEADLOCK FALSE
