SPECIFICATION Spec
CONSTANTS
  Target = "win32"
  NoMangling = TRUE
INVARIANT Emitted
CHECK_DEADLOCK FALSE
