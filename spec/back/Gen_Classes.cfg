SPECIFICATION Spec
CONSTANTS
  NMembers = 6
  MaxArity = 3
INVARIANT Emitted
CHECK_DEADLOCK FALSE
