SPECIFICATION Spec
CONSTANTS
  Kinds = {"Struct"}
  Abis = {"C"}
  BAttrs = {"none"}
  FKinds = {"FFn"}
  FAttrs = {"none"}
  MaxForeign = 1
  MaxLen = 2
  MaxInner = 2
  MaxDepth = 1
  MaxNodes = 4
  UnsChoices = {TRUE}
  Uniform = TRUE
  Mutant = "merge_hoist"
  Mode = "mc"
INVARIANTS InvItems
CHECK_DEADLOCK FALSE
