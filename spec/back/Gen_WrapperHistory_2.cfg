SPECIFICATION Spec
CONSTANTS
    Fns <- F4
    MaxSteps = 2
    WriteMode = "replace"
    OnSerializeError = "fail"
INVARIANTS PrintHist
CHECK_DEADLOCK FALSE
