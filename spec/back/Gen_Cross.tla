----------------------------- MODULE Gen_Cross -----------------------------
(***************************************************************************)
(* Behaviour generator for the text-only part of C04: declarations for the *)
(* object formats that cannot be executed on the host (Mach-O, Win32 with  *)
(* cdecl / stdcall / fastcall).  Every behaviour is one declaration; the   *)
(* prediction contains the symbol the compiler must emit                   *)
(* (Symbols!PlatformMangle: compared with llvm-nm, spec = environment),    *)
(* the identifier and #[link_name] bindgen must emit (Symbols!FnStep /     *)
(* VarStep with clang's mangling as input) and the symbol the Rust item    *)
(* then references (Symbols!RustSym).                                      *)
(***************************************************************************)
EXTENDS Symbols, TLC, Json

CONSTANTS Target,      \* "macho" | "win32"
          NoMangling   \* --distrust-clang-mangling

Abis == IF Target = "win32" THEN {"C", "stdcall", "fastcall"} ELSE {"C"}
(* parameter types: id and the bytes they occupy in a 32-bit stdcall/fastcall frame *)
Tys == << [id |-> "int", sz |-> 4], [id |-> "double", sz |-> 8], [id |-> "ptr", sz |-> 4],
          [id |-> "llong", sz |-> 8], [id |-> "S12", sz |-> 12] >>
ArgLists == {<<>>} \cup {<<a>> : a \in DOMAIN Tys} \cup {<<a, b>> : a \in DOMAIN Tys, b \in DOMAIN Tys}
RECURSIVE Bytes(_)
Bytes(as) == IF as = <<>> THEN 0 ELSE Tys[as[1]].sz + Bytes(Tail(as))
RECURSIVE ATag(_)
ATag(as) == IF as = <<>> THEN <<>> ELSE Dec(as[1]) \o ATag(Tail(as))

Shapes == {"plain", "keyword", "dollar"}
KwFor(abi) == CASE abi = "C" -> <<"t","y","p","e">> [] abi = "stdcall" -> <<"m","a","t","c","h">> [] OTHER -> <<"l","o","o","p">>
AbiLetter(abi) == CASE abi = "C" -> "c" [] abi = "stdcall" -> "s" [] OTHER -> "q"

KLetter(kind) == IF kind = "var" THEN "v" ELSE "f"

VARIABLES done, rec
vars == <<done, rec>>
Init == done = FALSE /\ rec = <<>>

NameFor(shape, abi, as, kind) ==
  CASE shape = "keyword" -> IF kind = "var" THEN <<"i","n">> ELSE KwFor(abi)
    [] shape = "dollar" -> <<"x", KLetter(kind), AbiLetter(abi)>> \o ATag(as) \o <<"z", "$", "y">>
    [] OTHER -> <<"x", KLetter(kind), AbiLetter(abi)>> \o ATag(as) \o <<"z">>

LinkOut(l) == [kind |-> l.kind, name |-> Str(l.name)]

Fn(shape, abi, as) ==
  /\ ~done
  /\ shape = "keyword" => as = <<1>>          \* one keyword-named function per calling convention
  /\ LET name == NameFor(shape, abi, as, "fn")
         ab == Bytes(as)
         csym == PlatformMangle(Target, abi, name, ab, FALSE)
         d == [name |-> name, mangled |-> IF NoMangling THEN None ELSE csym, linkov |-> None, abi |-> abi,
               variadic |-> FALSE, internal |-> FALSE, mkind |-> "fn", template |-> FALSE]
         r == FnStep(d, [wrapStatic |-> FALSE, suffix |-> <<>>, abiOverride |-> <<>>], {}, <<>>)
     IN rec' = [kind |-> "fn", shape |-> shape, cname |-> Str(name), abi |-> abi,
                args |-> [i \in DOMAIN as |-> Tys[as[i]].id], argbytes |-> ab,
                pred |-> [csym |-> Str(csym), ident |-> Str(r.ident), link |-> LinkOut(r.link), abi |-> r.abi,
                          rustsym |-> Str(RustSym(Target, r.abi, r.ident, r.link, ab, FALSE))]]
  /\ done' = TRUE

Var(shape, const) ==
  /\ ~done
  /\ LET name == NameFor(shape, "C", IF const THEN <<1>> ELSE <<>>, "var")
         csym == PlatformMangleVar(Target, name)
         d == [name |-> name, mangled |-> IF NoMangling THEN None ELSE csym, linkov |-> None, const |-> const, template |-> FALSE]
         r == VarStep(d, {})
     IN rec' = [kind |-> "var", shape |-> shape, cname |-> Str(name), abi |-> "C", args |-> <<>>, argbytes |-> 0,
                const |-> const,
                pred |-> [csym |-> Str(csym), ident |-> Str(r.ident), link |-> LinkOut(r.link), abi |-> "C",
                          rustsym |-> Str(RustSymVar(Target, r.ident, r.link))]]
  /\ done' = TRUE

Next == \/ \E s \in Shapes, a \in Abis, as \in ArgLists : Fn(s, a, as)
        \/ \E s \in Shapes, c \in BOOLEAN : (s = "keyword" => ~c) /\ Var(s, c)
Spec == Init /\ [][Next]_vars
Emitted == done => PrintT(<<"DECL", ToJson(rec)>>)
=============================================================================
