--------------------------- MODULE Trace_Formatter ---------------------------
(***************************************************************************)
(* Trace validation (impl -> spec) of C15.                                 *)
(*                                                                         *)
(* Input ($TRACE): NDJSON, many runs of `Bindings::write` concatenated.    *)
(* Per run: `reset` (written by bvdrive fmtdrive: case, formatter, header, *)
(* raw_lens, src = length of the unformatted text or -1, pred = class      *)
(* predicted by Gen_Formatter or ""), then the hook events of the real     *)
(* code - `fmt` (spawned | drain_eof a=bytes | waited a=code or -1, b=1 if *)
(* killed | joined a=1 if UTF-8) and `write_seg` (header | raw | sep |     *)
(* body_formatted | body_tokens, len) - then `run_end` (result).           *)
(* One state per consumed line.                                            *)
(*                                                                         *)
(* Property predicates (collected in `viol`):                              *)
(*  segments : the segment kinds are PreludeKinds(header, #raw) followed   *)
(*             by exactly one body, raw lengths in the given order;        *)
(*  triage   : the body segment is BodySegKind(class), class computed by   *)
(*             FormatterRules!TriageClass from the observed (utf8, code,   *)
(*             signal); no fmt event at all under rustfmt = spawn failure  *)
(*             = Fallback; an in-process formatter has no fmt events.      *)
(* Shape predicates (collected in `drift`): the fmt steps follow           *)
(* FormatterRules!NextStep (Formatter.tla refines it: StepsFollowNextStep);*)
(* prelude segments precede the protocol, the body follows it; a trusted   *)
(* body has the drained length, an Ok(source) body the source length; the  *)
(* observed class is the class Gen_Formatter predicted.                    *)
(***************************************************************************)
EXTENDS FormatterRules, Integers, TLC, Json, IOUtils

Rec == ndJsonDeserialize(IOEnv.TRACE)

VARIABLES l,       \* next line
          meta,    \* line of the `reset` of the open run, 0 = none
          phase,   \* last fmt step of the open run ("start" = none)
          obs,     \* observed [bytes, code, killed, utf8]
          segs,    \* <<kind, len>> of the open run
          viol, drift, cnt
vars == <<l, meta, phase, obs, segs, viol, drift, cnt>>

NoObs == [bytes |-> -1, code |-> -1, killed |-> 0, utf8 |-> 0]
Init == /\ l = 1 /\ meta = 0 /\ phase = "start" /\ obs = NoObs /\ segs = <<>>
        /\ viol = <<>> /\ drift = <<>>
        /\ cnt = [runs |-> 0, validated |-> 0, incomplete |-> 0, events |-> 0, external |-> 0]

Ev == Rec[l]
Is(e) == l <= Len(Rec) /\ Ev.ev = e
Cap(s, x) == IF Len(s) < 100 THEN Append(s, x) ELSE s
M == Rec[meta]

Reset ==
  /\ Is("reset")
  /\ meta' = l /\ phase' = "start" /\ obs' = NoObs /\ segs' = <<>>
  /\ cnt' = [cnt EXCEPT !.runs = @ + 1, !.incomplete = @ + (IF meta # 0 THEN 1 ELSE 0)]
  \* a run without run_end: its thread was abandoned by the watchdog (reported as hang by the driver)
  /\ drift' = IF meta # 0 THEN Cap(drift, [kind |-> "run-without-end", case |-> M.case]) ELSE drift
  /\ UNCHANGED viol

Fmt ==
  /\ Is("fmt") /\ meta # 0
  /\ LET inOrder == phase \in DOMAIN NextStep /\ NextStep[phase] = Ev.step IN
     /\ drift' = IF inOrder THEN drift
                 ELSE Cap(drift, [kind |-> "protocol-order", case |-> M.case, after |-> phase, step |-> Ev.step])
     /\ phase' = Ev.step
     /\ obs' = CASE Ev.step = "drain_eof" -> [obs EXCEPT !.bytes = Ev.a]
                 [] Ev.step = "waited" -> [obs EXCEPT !.code = Ev.a, !.killed = Ev.b]
                 [] Ev.step = "joined" -> [obs EXCEPT !.utf8 = Ev.a]
                 [] OTHER -> obs
  /\ cnt' = [cnt EXCEPT !.events = @ + 1]
  /\ UNCHANGED <<meta, segs, viol>>

IsBody(k) == k \in {"body_formatted", "body_tokens"}
Seg ==
  /\ Is("write_seg") /\ meta # 0
  /\ segs' = Append(segs, <<Ev.kind, Ev.len>>)
  \* the prelude is written before the formatter is started
  /\ drift' = IF ~IsBody(Ev.kind) /\ phase # "start"
                THEN Cap(drift, [kind |-> "prelude-after-protocol", case |-> M.case, seg |-> Ev.kind])
                ELSE drift
  /\ cnt' = [cnt EXCEPT !.events = @ + 1]
  /\ UNCHANGED <<meta, phase, obs, viol>>

\* class of the run from what was observed
External == M.formatter = "rustfmt"
ObsClass ==
  IF ~External THEN "Formatted"                                   \* none / prettyplease: in process
  ELSE IF phase = "start" THEN "Fallback"                         \* spawn()? failed
  ELSE IF phase = "joined"
         THEN TriageClass(obs.utf8 = 1, obs.killed = 0 /\ obs.code \in SuccessCodes)
  ELSE "Fallback"                                                 \* an early `?` return
Kinds == [j \in DOMAIN segs |-> segs[j][1]]
NRaw == Len(M.raw_lens)
ExpectedKinds(body) == PreludeKinds(M.header, NRaw) \o <<body>>
RawLens == LET idx == IF M.header THEN 1 ELSE 0 IN [j \in 1..NRaw |-> segs[idx + j][2]]
BodyLen == segs[Len(segs)][2]

SegmentsOk == /\ Len(segs) >= 1 /\ IsBody(Kinds[Len(segs)])
              /\ Kinds = ExpectedKinds(Kinds[Len(segs)])
              /\ RawLens = M.raw_lens
TriageOk == Kinds[Len(segs)] = BodySegKind(ObsClass)

RunEnd ==
  /\ Is("run_end") /\ meta # 0
  /\ IF Ev.result # "ok"
       THEN \* Err / panic of `write`: already a violation of the replay direction; nothing to validate
            /\ cnt' = [cnt EXCEPT !.incomplete = @ + 1] /\ UNCHANGED <<viol, drift>>
       ELSE
         /\ cnt' = [cnt EXCEPT !.validated = @ + 1, !.external = @ + (IF External /\ phase # "start" THEN 1 ELSE 0)]
         /\ viol' =
              IF ~SegmentsOk
                THEN Cap(viol, [kind |-> "segments", case |-> M.case, segs |-> Kinds, header |-> M.header, nraw |-> NRaw])
              ELSE IF ~TriageOk
                THEN Cap(viol, [kind |-> "triage", case |-> M.case, class |-> ObsClass, body |-> Kinds[Len(segs)],
                                utf8 |-> obs.utf8, code |-> obs.code, killed |-> obs.killed, phase |-> phase])
              ELSE IF ~External /\ phase # "start"
                THEN Cap(viol, [kind |-> "triage", case |-> M.case, class |-> "in-process formatter ran a child",
                                body |-> Kinds[Len(segs)], utf8 |-> obs.utf8, code |-> obs.code,
                                killed |-> obs.killed, phase |-> phase])
              ELSE viol
         /\ drift' =
              IF ~SegmentsOk \/ ~TriageOk THEN drift
              ELSE IF M.pred # "" /\ M.pred # ObsClass
                THEN Cap(drift, [kind |-> "class-differs-from-prediction", case |-> M.case, pred |-> M.pred, obs |-> ObsClass])
              ELSE IF External /\ ObsClass = "Formatted" /\ BodyLen # obs.bytes
                THEN Cap(drift, [kind |-> "trusted-body-is-not-the-drained-output", case |-> M.case])
              ELSE IF External /\ ObsClass = "Source" /\ M.src >= 0 /\ BodyLen # M.src
                THEN Cap(drift, [kind |-> "source-body-length", case |-> M.case])
              ELSE drift
  /\ meta' = 0 /\ phase' = "start" /\ obs' = NoObs /\ segs' = <<>>

Other ==
  /\ l <= Len(Rec)
  /\ ~(Ev.ev \in {"reset", "run_end"}) /\ (meta = 0 \/ ~(Ev.ev \in {"fmt", "write_seg"}))
  /\ UNCHANGED <<meta, phase, obs, segs, viol, drift, cnt>>

Next == /\ (Reset \/ Fmt \/ Seg \/ RunEnd \/ Other)
        /\ l' = l + 1
Spec == Init /\ [][Next]_vars

Done == l = Len(Rec) + 1
Report == Done => /\ PrintT(<<"VIOL", ToJson(viol)>>)
                  /\ PrintT(<<"DRIFT", ToJson(drift)>>)
                  /\ PrintT(<<"COUNTS", ToJson(cnt)>>)
\* every line was consumed: the trace is accepted as a behaviour
Accepted ==
  LET d == TLCGet("stats").diameter IN
  IF d = Len(Rec) + 1 THEN TRUE
  ELSE /\ PrintT(<<"REJECTED", ToJson([line |-> d, event |-> IF d <= Len(Rec) THEN Rec[d] ELSE <<>>])>>)
       /\ FALSE
=============================================================================
