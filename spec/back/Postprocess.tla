----------------------------- MODULE Postprocess -----------------------------
(***************************************************************************)
(* Post-processing passes of bindgen (codegen/postprocessing):             *)
(* `merge_extern_blocks` and `sort_semantically` on the re-parsed          *)
(* syn::File, per module level.                                            *)
(*                                                                         *)
(*   L2  what the code does        MergeStep / MergeLevel / MergeTree,     *)
(*                                 SortLevel / SortTree, Apply             *)
(*   L1  what the property says    SameItems, SameModules, MergeKeyOK,     *)
(*                                 KindOrderOK, (idempotence = equality)   *)
(*                                                                         *)
(* This module is constant-free so that the bounded model                  *)
(* (MC_Postprocess), the behaviour generator (same module, Gen_ configs)   *)
(* and the validation of observations of the real code (Trace_Postprocess) *)
(* evaluate the very same operators.                                       *)
(*                                                                         *)
(* An item is a record [k, id, items, abi, at, uns]:                       *)
(*   k     kind: "Type" "Struct" "Const" "Fn" "Enum" "Union" "Static"      *)
(*         "Impl" "Use" (and any other syn item kind), "Mod", "FM"         *)
(*         (ItemForeignMod), inside an FM: "FFn", "FStatic" (...)          *)
(*   id    identity of the item (its text in the real bindings)            *)
(*   items content of a Mod / FM, <<>> otherwise                           *)
(*   abi   FM: ABI string                                                  *)
(*   at    FM: block attributes; FFn/FStatic: own attributes               *)
(*   uns   FM: `unsafe extern`                                             *)
(* A module level is a sequence of items; a file is the top level.         *)
(***************************************************************************)
EXTENDS Naturals, Sequences, FiniteSets, TLC

Item(k, id) == [k |-> k, id |-> id, items |-> <<>>, abi |-> "", at |-> "", uns |-> FALSE]

Map(s, Op(_)) == IF s = <<>> THEN <<>> ELSE [i \in 1..Len(s) |-> Op(s[i])]
Rev(s) == IF s = <<>> THEN <<>> ELSE [i \in 1..Len(s) |-> s[Len(s) + 1 - i]]
Rng(s) == {s[i] : i \in DOMAIN s}
RECURSIVE Concat(_)
Concat(ss) == IF ss = <<>> THEN <<>> ELSE Head(ss) \o Concat(Tail(ss))
MinOf(S) == CHOOSE x \in S : \A y \in S : x <= y

-----------------------------------------------------------------------------
(* L2: merge_extern_blocks.rs                                              *)
(*                                                                         *)
(* visit_items: fold over the level; a non-foreign item is pushed back, a  *)
(* foreign block is appended to the FIRST earlier block with equal         *)
(* (attrs, abi) - unsafety is NOT part of the key - or stored as a new     *)
(* block; all blocks are pushed after the other items.  Then the visitor   *)
(* recurses into every module.                                             *)
(* `mu` selects a deliberately broken variant (sensitivity configs only).  *)

Key(b, mu) == CASE mu = "merge_ignore_attrs" -> <<b.abi>>
                [] mu = "merge_ignore_abi" -> <<b.at>>
                [] mu = "merge_key_unsafety" -> <<b.at, b.abi, b.uns>>   \* what L1 would like
                [] OTHER -> <<b.at, b.abi>>

FirstMatch(blocks, b, mu) ==
  LET S == {i \in DOMAIN blocks : Key(blocks[i], mu) = Key(b, mu)}
  IN IF S = {} THEN 0 ELSE MinOf(S)

MergeStep(acc, it, mu) ==
  IF it.k # "FM" THEN [acc EXCEPT !.rest = Append(@, it)]
  ELSE LET i == FirstMatch(acc.blocks, it, mu) IN
       IF i # 0 THEN
         IF mu = "merge_dup"
         THEN [acc EXCEPT !.blocks = Append([@ EXCEPT ![i].items = @ \o it.items], it)]
         ELSE [acc EXCEPT !.blocks[i].items = @ \o it.items]
       ELSE IF mu = "merge_drop" /\ \E j \in DOMAIN acc.blocks : acc.blocks[j].abi = it.abi
            THEN acc      \* loses a block of a known ABI whose attributes differ
            ELSE [acc EXCEPT !.blocks = Append(@, it)]

MergeLevel(s, mu) ==
  LET RECURSIVE F(_, _)
      F(acc, i) == IF i > Len(s) THEN acc ELSE F(MergeStep(acc, s[i], mu), i + 1)
      r == F([rest |-> <<>>, blocks |-> <<>>], 1)
  IN r.rest \o (IF mu = "merge_rotate" THEN Rev(r.blocks) ELSE r.blocks)

(* broken variant: the blocks of child modules are moved to the parent     *)
Hoist(s) ==
  LET IsFM(x) == x.k = "FM"
      NotFM(x) == x.k # "FM"
      Strip(x) == IF x.k = "Mod" THEN [x EXCEPT !.items = SelectSeq(@, NotFM)] ELSE x
      Up(x) == IF x.k = "Mod" THEN SelectSeq(x.items, IsFM) ELSE <<>>
  IN Map(s, Strip) \o Concat(Map(s, Up))

RECURSIVE MergeTree(_, _)
MergeTree(s, mu) ==
  LET t == MergeLevel(IF mu = "merge_hoist" THEN Hoist(s) ELSE s, mu)
      Down(x) == IF x.k = "Mod" THEN [x EXCEPT !.items = MergeTree(@, mu)] ELSE x
  IN Map(t, Down)

-----------------------------------------------------------------------------
(* L2: sort_semantically.rs - `items.sort_by_key(rank)` (a stable sort)    *)
(* per level, then recursion into every module.                            *)

Rank(k) == CASE k = "Type" -> 0 [] k = "Struct" -> 1 [] k = "Const" -> 2 [] k = "Fn" -> 3
             [] k = "Enum" -> 4 [] k = "Union" -> 5 [] k = "Static" -> 6 [] k = "Trait" -> 7
             [] k = "TraitAlias" -> 8 [] k = "Impl" -> 9 [] k = "Mod" -> 10 [] k = "Use" -> 11
             [] k = "Verbatim" -> 12 [] k = "ExternCrate" -> 13 [] k = "FM" -> 14
             [] k = "Macro" -> 15 [] OTHER -> 18
MaxRank == 18

(* a stable sort by key = concatenation, by ascending key, of the          *)
(* subsequences with that key                                              *)
SortLevel(s, mu) ==
  LET RECURSIVE C(_)
      C(r) == IF r > MaxRank THEN <<>>
              ELSE LET sel == SelectSeq(s, LAMBDA x : Rank(x.k) = r)
                   IN (IF mu = "unstable_sort" THEN Rev(sel) ELSE sel) \o C(r + 1)
  IN C(0)

(* broken variant: modules nested in a module become its siblings          *)
Unnest(s) ==
  LET IsM(x) == x.k = "Mod"
      NotM(x) == x.k # "Mod"
      Strip(x) == IF x.k = "Mod" THEN [x EXCEPT !.items = SelectSeq(@, NotM)] ELSE x
      Up(x) == IF x.k = "Mod" THEN SelectSeq(x.items, IsM) ELSE <<>>
  IN Map(s, Strip) \o Concat(Map(s, Up))

RECURSIVE SortTree(_, _)
SortTree(s, mu) ==
  LET t == SortLevel(IF mu = "sort_unnest" THEN Unnest(s) ELSE s, mu)
      Down(x) == IF x.k = "Mod" THEN [x EXCEPT !.items = SortTree(@, mu)] ELSE x
  IN Map(t, Down)

(* postprocessing/mod.rs: PASSES = [merge_extern_blocks, sort_semantically] *)
Apply(s, m, so, mu) ==
  LET a == IF m THEN MergeTree(s, mu) ELSE s
  IN IF so THEN SortTree(a, mu) ELSE a

-----------------------------------------------------------------------------
(* L1: the property.  Both sides are flattened in pre-order to descriptors *)
(* [path, k, id, at, abi, bat, uns]: `path` = ids of the enclosing         *)
(* modules; a foreign item carries its block's abi / attributes / unsafety *)
(* (the blocks themselves are grouping, not items).                        *)

IsForeign(d) == d.abi # "-"
RECURSIVE Flat(_, _)
Flat(s, path) ==
  LET One(x) ==
        IF x.k = "Mod" THEN
          <<[path |-> path, k |-> "Mod", id |-> x.id, at |-> "", abi |-> "-", bat |-> "", uns |-> FALSE]>>
          \o Flat(x.items, Append(path, x.id))
        ELSE IF x.k = "FM" THEN
          Map(x.items, LAMBDA y : [path |-> path, k |-> y.k, id |-> y.id, at |-> y.at,
                                   abi |-> x.abi, bat |-> x.at, uns |-> x.uns])
        ELSE <<[path |-> path, k |-> x.k, id |-> x.id, at |-> "", abi |-> "-", bat |-> "", uns |-> FALSE]>>
  IN Concat(Map(s, One))

Count(f, x) == Cardinality({i \in DOMAIN f : f[i] = x})
SameBag(f, g) ==
  /\ Len(f) = Len(g)
  /\ Rng(f) = Rng(g)
  /\ Cardinality(Rng(f)) # Len(f) => \A x \in Rng(f) : Count(f, x) = Count(g, x)

(* the multiset of items is exactly that of the unprocessed bindings, each *)
(* item in its module, each foreign item with attributes, ABI, unsafety    *)
SameItems(fa, fb) == SameBag(fa, fb)

(* module structure kept                                                   *)
IsMod(d) == d.k = "Mod"
SameModules(fa, fb) == SameBag(SelectSeq(fa, IsMod), SelectSeq(fb, IsMod))

(* foreign items are merged only into a block with the same ABI,           *)
(* attributes and unsafety                                                 *)
FKey(d) == <<d.path, d.k, d.id, d.abi, d.bat, d.uns>>
MergeKeyOK(fa, fb) ==
  {FKey(fb[i]) : i \in {j \in DOMAIN fb : IsForeign(fb[j])}}
     \subseteq {FKey(fa[i]) : i \in {j \in DOMAIN fa : IsForeign(fa[j])}}

(* relative order of the items of one kind (within one module; for foreign *)
(* items: one kind with one ABI / block attributes / unsafety)             *)
Class(d) == <<d.path, d.k, d.abi, d.bat, d.uns>>
Proj(f, c) == Map(SelectSeq(f, LAMBDA d : Class(d) = c), LAMBDA d : d.id)
KindOrderOK(fa, fb) ==
  \A c \in {Class(fa[i]) : i \in DOMAIN fa} \cup {Class(fb[i]) : i \in DOMAIN fb} :
     Proj(fa, c) = Proj(fb, c)

L1(a, b) == LET fa == Flat(a, <<>>) fb == Flat(b, <<>>) IN
            /\ SameItems(fa, fb) /\ SameModules(fa, fb)
            /\ MergeKeyOK(fa, fb) /\ KindOrderOK(fa, fb)

(* reachable-input assumption: one generation emits one unsafety           *)
RECURSIVE Blocks(_)
Blocks(s) == Concat(Map(s, LAMBDA x : IF x.k = "FM" THEN <<x>>
                                      ELSE IF x.k = "Mod" THEN Blocks(x.items) ELSE <<>>))
UniformUnsafety(s) == \A x, y \in Rng(Blocks(s)) : x.uns = y.uns
=============================================================================
