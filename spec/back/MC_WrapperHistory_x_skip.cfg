SPECIFICATION Spec
CONSTANTS
    Fns <- F4
    MaxSteps = 2
    WriteMode = "replace"
    OnSerializeError = "skip"
INVARIANTS TypeOK NoDangling NoExtra VariadicUnbound UnsupportedUnbound
CHECK_DEADLOCK FALSE
