--------------------------- MODULE Trace_SymEvents ---------------------------
(***************************************************************************)
(* Trace validation (impl -> spec) of the `sym` hook events (H8) of the    *)
(* real <Function as CodeGenerator>::codegen against Symbols.tla and       *)
(* Wrappers.tla, over the repository corpus.  Input: NDJSON ($TRACE)       *)
(* projected by lib/sym_corpus.py from the hook logs and the syn inventory *)
(* of the emitted text:                                                    *)
(*  {ev:"sym", case, target (elf|macho|win32|win64), wrapstatic, linkcb,   *)
(*   cxx, name[], ident[] (canonical name + overload suffix), overload,    *)
(*   hasm, mangled[], evlink:{has, name[]} (link_name_attr of the hook),   *)
(*   internal, should_wrap,                                                *)
(*   item:{found, link:{kind,name[]}, abi}  the foreign item of the text}  *)
(*  {ev:"mod", case, idents:[ "module::ident" ]}   all foreign items       *)
(* One state per line.  Property predicates (violations):                  *)
(*   SymOK    the symbol the emitted item references (RustSym of the text's*)
(*            identifier / #[link_name] / ABI under the case's target      *)
(*            mangling) = the compiler's symbol reported by clang          *)
(*   Unique   no two foreign items of one module share an identifier       *)
(*   Dangling (C16) an internal function that received a binding must be   *)
(*            wrapped                                                      *)
(* Shape predicates (DRIFT): identifier = Mangle(name) + overload suffix,  *)
(* link_name present iff not NamesIdentical (LinkNameIff as transcribed),  *)
(* should_wrap only for internal /\ --wrap-static-fns /\ no link name,     *)
(* hook = text (identifier, link name, wrapper link name = ident+suffix).  *)
(***************************************************************************)
EXTENDS Symbols, Json, IOUtils, TLC

Rec == ndJsonDeserialize(IOEnv.TRACE)

VARIABLES l, viol, drift, nsym, nmod
vars == <<l, viol, drift, nsym, nmod>>
Init == l = 1 /\ viol = <<>> /\ drift = <<>> /\ nsym = 0 /\ nmod = 0
Cap(s, x) == IF Len(s) < 400 THEN Append(s, x) ELSE s

EndsWith(s, suf) == Len(s) >= Len(suf) /\ SubSeq(s, Len(s) - Len(suf) + 1, Len(s)) = suf
EvLink(e) == IF e.evlink.has THEN Verbatim(e.evlink.name) ELSE NoLink
TextLink(e) == IF e.item.found THEN [kind |-> e.item.link.kind, name |-> e.item.link.name] ELSE EvLink(e)
Abi(e) == IF e.item.found THEN e.item.abi ELSE "C"
RIdent(e) == RustMangle(e.ident)
Decorated(e) == e.target = "win32" /\ Abi(e) \in {"stdcall", "fastcall", "vectorcall", "thiscall", "system"}

(* the linker-visible name of the emitted item equals clang's symbol *)
SymOK(e) ==
  LET lk == TextLink(e) IN
  IF ~e.hasm \/ e.should_wrap \/ e.internal THEN TRUE
  ELSE IF e.linkcb THEN lk.kind = "verbatim" /\ e.evlink.has /\ lk.name = e.evlink.name
  ELSE IF lk.kind = "verbatim" THEN lk.name = e.mangled
  ELSE IF lk.kind = "mangled" THEN PlatformMangle(e.target, "C", lk.name, 0, TRUE) = e.mangled
  ELSE IF Decorated(e) THEN NamesIdentical(RIdent(e), e.mangled, Abi(e))     \* _f@N / @f@N: N is LLVM's
  ELSE IF ~e.item.found /\ e.target = "win32" THEN TRUE
  ELSE PlatformMangle(e.target, "C", RIdent(e), 0, TRUE) = e.mangled

Dangling(e) == e.internal /\ ~e.should_wrap

(* canonical names of methods may already carry an overload index (Item::overload_index), then the *)
(* counter of Function::codegen appends its own: identifier = [path_]Mangle(name) digits*            *)
RECURSIVE StripDigits(_)
StripDigits(s) == IF s # <<>> /\ s[Len(s)] \in Digit THEN StripDigits(SubSeq(s, 1, Len(s) - 1)) ELSE s
IdentRule(e) == /\ (e.overload > 0 => EndsWith(e.ident, Dec(e.overload)))
                /\ \E b \in {e.ident, StripDigits(e.ident)}, m \in {RustMangle(e.name), ReplaceSpecial(e.name), StripDigits(RustMangle(e.name))} :
                      EndsWith(b, m)
LinkIff(e) ==
  (e.linkcb \/ ~e.item.found) \/
  LET m == IF e.hasm THEN e.mangled ELSE e.name IN
  /\ e.evlink.has <=> ~NamesIdentical(e.ident, m, Abi(e))
  /\ e.evlink.has => e.evlink.name = m
WrapRule(e) == e.should_wrap => (e.internal /\ e.wrapstatic /\ ~e.evlink.has)
HookIsText(e) ==
  ~e.item.found \/
  IF e.should_wrap THEN e.item.link.kind = "mangled" /\ StartsWith(e.item.link.name, e.ident)
  ELSE [kind |-> e.item.link.kind, name |-> e.item.link.name] = EvLink(e)

Row(e, what) == [case |-> e.case, what |-> what, name |-> Str(e.name), ident |-> Str(e.ident), target |-> e.target,
                 mangled |-> Str(e.mangled), link |-> Str(TextLink(e).name), linkkind |-> TextLink(e).kind,
                 cxx |-> e.cxx, keyword |-> RustMangle(e.name) # e.name, linkcb |-> e.linkcb]

RECURSIVE AppendAll(_, _)
AppendAll(s, xs) == IF xs = <<>> THEN s ELSE AppendAll(Cap(s, Head(xs)), Tail(xs))

Dups(ids) == {i \in DOMAIN ids : \E j \in DOMAIN ids : j < i /\ ids[j] = ids[i]}
RECURSIVE SeqOfSet(_)
SeqOfSet(S) == IF S = {} THEN <<>> ELSE LET x == CHOOSE x \in S : TRUE IN <<x>> \o SeqOfSet(S \ {x})

Step ==
  /\ l <= Len(Rec)
  /\ LET e == Rec[l] IN
     IF e.ev = "sym"
       THEN /\ viol' = AppendAll(viol, (IF SymOK(e) THEN <<>> ELSE <<Row(e, "symbol")>>)
                                       \o (IF Dangling(e) THEN <<Row(e, "dangling")>> ELSE <<>>))
            /\ drift' = AppendAll(drift, (IF IdentRule(e) THEN <<>> ELSE <<Row(e, "ident-rule")>>)
                                         \o (IF LinkIff(e) THEN <<>> ELSE <<Row(e, "link-name-iff")>>)
                                         \o (IF WrapRule(e) THEN <<>> ELSE <<Row(e, "should-wrap-rule")>>)
                                         \o (IF HookIsText(e) THEN <<>> ELSE <<Row(e, "hook-vs-text")>>))
            /\ nsym' = nsym + 1 /\ UNCHANGED nmod
       ELSE /\ viol' = AppendAll(viol, [i \in 1..Cardinality(Dups(e.idents)) |->
                                          [case |-> e.case, what |-> "duplicate-ident",
                                           ident |-> e.idents[SeqOfSet(Dups(e.idents))[i]]]])
            /\ nmod' = nmod + 1 /\ UNCHANGED <<drift, nsym>>
  /\ l' = l + 1

Spec == Init /\ [][Step]_vars
Finished == l = Len(Rec) + 1
Report == Finished =>
  /\ PrintT(<<"VIOL", ToJson(viol)>>)
  /\ PrintT(<<"DRIFT", ToJson(drift)>>)
  /\ PrintT(<<"COUNTS", ToJson([sym |-> nsym, cases |-> nmod])>>)
Post == TLCGet("stats").diameter = Len(Rec) + 1
=============================================================================
