SPECIFICATION Spec
CONSTANTS
  Target = "macho"
  K = 1
  AsmUnderscore = FALSE
  SuffixLike = FALSE
  NoMangling = FALSE
  VarLinkOverride = FALSE
  Mutation = "mangleVerbatim"
INVARIANTS SymbolsOK
CHECK_DEADLOCK FALSE
