SPECIFICATION Spec
CONSTANTS
  Kinds = {"Fn"}
  Abis = {"C"}
  BAttrs = {"none", "a"}
  FKinds = {"FFn", "FStatic"}
  FAttrs = {"none", "a", "b"}
  MaxForeign = 2
  MaxLen = 2
  MaxInner = 1
  MaxDepth = 1
  MaxNodes = 6
  UnsChoices = {TRUE}
  Uniform = TRUE
  Mutant = "none"
  Mode = "mc"
INVARIANTS InvItems InvModules InvMergeKey InvKindOrder InvIdempotent InvApply InvUniform
CHECK_DEADLOCK FALSE
