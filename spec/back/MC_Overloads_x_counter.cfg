SPECIFICATION Spec
CONSTANTS
  Base = {"send", "send1", "send2"}
  MaxDecls = 5
  Probing = FALSE
INVARIANTS UniqueMethods
CHECK_DEADLOCK FALSE
