SPECIFICATION Spec
CONSTANTS
  K = 1
  Lang = "c"
  WithKeyword = FALSE
  WithLinkOv = FALSE
  Mutation = "defaultSuffix"
INVARIANTS InvBijection
CHECK_DEADLOCK FALSE
