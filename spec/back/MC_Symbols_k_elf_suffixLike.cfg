SPECIFICATION Spec
CONSTANTS
  Target = "elf"
  K = 3
  AsmUnderscore = FALSE
  SuffixLike = TRUE
  NoMangling = FALSE
  VarLinkOverride = FALSE
  Mutation = "none"
INVARIANTS UniqueIdents
CHECK_DEADLOCK FALSE
