SPECIFICATION Spec
CONSTANTS
  Kinds = {"Struct"}
  Abis = {"C", "system"}
  BAttrs = {"none", "a"}
  FKinds = {"FFn", "FStatic"}
  FAttrs = {"none"}
  MaxForeign = 1
  MaxLen = 4
  MaxInner = 2
  MaxDepth = 0
  MaxNodes = 8
  UnsChoices = {TRUE}
  Uniform = TRUE
  Mutant = "none"
  Mode = "mc"
INVARIANTS InvItems InvModules InvMergeKey InvKindOrder InvIdempotent InvApply InvUniform
CHECK_DEADLOCK FALSE
