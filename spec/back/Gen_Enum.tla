------------------------------ MODULE Gen_Enum ------------------------------
(***************************************************************************)
(* Behaviour generator (spec -> impl) for the enum part of C05: every      *)
(* valid enum declaration with up to MaxVariants enumerators whose values  *)
(* are implicit (previous + 1) or explicit boundary tokens <<b, off>>,     *)
(* with or without a fixed underlying type, plain or scoped.  Printed with *)
(* the prediction of Consts: the enumerator values, the underlying         *)
(* (width, sign) by the C rule, and per style the names of the constants.  *)
(***************************************************************************)
EXTENDS Consts, Json

CONSTANTS MaxVariants, Tokens, Fixed

AllTokens == {<<5, -1>>, <<5, 0>>, <<5, 1>>, <<2, 0>>, <<10, -1>>, <<10, 0>>, <<11, -1>>, <<11, 0>>, <<1, 0>>,
              <<12, -1>>, <<12, 0>>, <<13, -1>>, <<6, -1>>, <<7, -1>>, <<4, 0>>}
AllFixed == {NoFixed} \cup {CTy(w, s) : w \in {8, 16, 32, 64}, s \in BOOLEAN}

VARIABLES fixed, form, specs
vars == <<fixed, form, specs>>

Init == /\ fixed \in Fixed /\ specs = <<>>
        /\ form \in (IF fixed = NoFixed THEN {"plain"} ELSE {"plain", "class"})
Add == /\ Len(specs) < MaxVariants
       /\ \E t \in {Imp} \cup Tokens : specs' = Append(specs, t)
       /\ UNCHANGED <<fixed, form>>
Spec == Init /\ [][Add]_vars

Vals == EnumVals(specs)
Valid == specs # <<>> /\ ValidEnum(fixed, Vals)
Under == Underlying(fixed, Vals)
Rec == [fixed |-> fixed, form |-> form, specs |-> specs, vals |-> Vals, under |-> Under,
        regions |-> [i \in DOMAIN Vals |-> RegionOf(Vals[i])],
        rustvariants |-> RustVariants(Vals)]
Emitted == Valid => PrintT(<<"ENUM", ToJson(Rec)>>)
(* the model's own obligation on every declaration that is generated        *)
Sound == Valid => EnumSound(fixed, specs)
=============================================================================
