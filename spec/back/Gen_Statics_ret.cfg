SPECIFICATION Spec
CONSTANTS
  NFns = 1
  MinArity = 0
  MaxArity = 0
  Kinds = {"static"}
  Shapes = {"plain"}
  ArgSet = "mini"
  RetSet = "all"
  OptSet = "c"
  FixedToks = TRUE
INVARIANTS Emitted PredictedBijection
CHECK_DEADLOCK FALSE
