---------------------------- MODULE Trace_Consts ----------------------------
(***************************************************************************)
(* Trace validation (impl -> spec) for C05.                                *)
(*                                                                         *)
(* Input ($TRACE, NDJSON): one line per run of the real bindgen on one     *)
(* header under one option set:                                            *)
(*   {"case", "opts": {"signed","fit","fallback"}, "obs": [ ... ]}         *)
(* Every observation pairs what the C compiler computed (clang-built       *)
(* probe: kind, region of the value, width and signedness of the C type)   *)
(* with what the generated bindings contain (rustc-built probe: kind,      *)
(* region of the value, width and signedness of the Rust type):            *)
(*   {"cls": "macro"|"enumval"|"enumty"|"var", "name", "emitted", "cdef",  *)
(*    "ckind", "creg", "cw", "cs", "rkind", "rreg", "rw", "rs", "equal",   *)
(*    "pred": "yes"|"no"|"na", "kindcheck"}                                *)
(* The harness only measures (arbitrary-precision values -> regions and    *)
(* `equal`); this module judges with the predicates of Consts.  One state  *)
(* per consumed line; property failures are collected in `viol`, model     *)
(* mismatches that are not property failures in `drift`.                   *)
(***************************************************************************)
EXTENDS Consts, Json, IOUtils

(* the trace is read once, into a variable (an operator over IOEnv would be  *)
(* re-evaluated, i.e. the file re-parsed, at every use)                      *)
VARIABLES rec, l, viol, drift, nobs, nemit
vars == <<rec, l, viol, drift, nobs, nemit>>


IsInt(o) == o.ckind \in {"int", "char"} /\ o.rkind \in {"int", "bool"}
RK(o) == KindOf(o.rw, o.rs)

(* ---- the property, per observation: the names of the failed predicates --- *)
Failed(o) ==
  IF ~o.emitted THEN <<>>                                 \* OmissionAllowed
  ELSE IF o.cls = "enumty" THEN
         (IF o.rw = o.cw /\ o.rs = o.cs THEN <<>> ELSE <<"enum-type">>)
  ELSE IF o.rkind = "rejected" THEN <<"not-valid-rust">>
  ELSE IF ~o.cdef THEN <<>>                               \* C has no value to compare with
  ELSE (IF EmittedImpliesEqual(o) THEN <<>> ELSE <<"value">>)
       \o (IF IsInt(o) /\ ~Holds(RK(o), o.creg) THEN <<"holds">> ELSE <<>>)
       \o (IF IsInt(o) /\ ~SameSign(RK(o), o.creg, o.rreg) THEN <<"sign">> ELSE <<>>)
       \o (IF (o.ckind = "float") # (o.rkind = "float") THEN <<"kind">> ELSE <<>>)
       \o (IF (o.ckind \in {"str", "wstr"}) # (o.rkind \in {"bytes", "cstr"}) THEN <<"kind">> ELSE <<>>)
       \o (IF o.ckind = "wstr" /\ o.rkind \in {"bytes", "cstr"} THEN <<"element-width">> ELSE <<>>)
       \o (IF o.cls = "enumval" /\ (o.rw # o.cw \/ o.rs # o.cs) THEN <<"enum-type">> ELSE <<>>)

(* ---- shape: the L2 model against the code (never a verdict) --------------- *)
Drift(o, opts) ==
  (IF o.kindcheck /\ o.emitted /\ o.rkind = "int" /\ o.rreg \in I64Regions
      /\ RK(o) # Kind(o.rreg, [signed |-> opts.signed, fit |-> opts.fit])
   THEN <<"kind-differs-from-default_macro_constant_type-model">> ELSE <<>>)
  \o (IF o.pred = "yes" /\ ~o.emitted THEN <<"model-expects-constant-but-omitted">> ELSE <<>>)
  \o (IF o.pred = "no" /\ o.emitted /\ ~opts.fallback THEN <<"model-expects-omission-but-emitted">> ELSE <<>>)

Summary(c, o, f) == [case |-> c, name |-> o.name, cls |-> o.cls, failed |-> f, ckind |-> o.ckind,
                     creg |-> RegionName[o.creg], cw |-> o.cw, cs |-> o.cs, rkind |-> o.rkind,
                     rreg |-> RegionName[o.rreg], rw |-> o.rw, rs |-> o.rs]

Init == /\ rec = ndJsonDeserialize(IOEnv.TRACE)
        /\ l = 1 /\ viol = <<>> /\ drift = <<>> /\ nobs = 0 /\ nemit = 0

(* the failures / drifts / number of emitted constants of one line          *)
NonEmpty(x) == x.failed # <<>>
Step ==
  /\ l <= Len(rec)
  /\ UNCHANGED rec
  /\ LET ev == rec[l]
         fv == SelectSeq([i \in DOMAIN ev.obs |-> Summary(ev.case, ev.obs[i], Failed(ev.obs[i]))], NonEmpty)
         fd == SelectSeq([i \in DOMAIN ev.obs |-> Summary(ev.case, ev.obs[i], Drift(ev.obs[i], ev.opts))], NonEmpty)
     IN /\ viol' = IF Len(viol) < 20000 THEN viol \o fv ELSE viol
        /\ drift' = IF Len(drift) < 2000 THEN drift \o fd ELSE drift
        /\ nobs' = nobs + Len(ev.obs)
        /\ nemit' = nemit + Cardinality({i \in DOMAIN ev.obs : ev.obs[i].emitted})
  /\ l' = l + 1

Spec == Init /\ [][Step]_vars

NLines == Len(ndJsonDeserialize(IOEnv.TRACE))
Accepted ==
  LET d == TLCGet("stats").diameter IN
  IF d - 1 = NLines THEN TRUE
  ELSE /\ PrintT(<<"REJECTED", ToJson([at |-> d])>>)
       /\ FALSE

Done == l = Len(rec) + 1
Report == Done => /\ PrintT(<<"VIOL", ToJson(viol)>>)
                  /\ PrintT(<<"DRIFT", ToJson(drift)>>)
                  /\ PrintT(<<"COUNTS", ToJson([runs |-> Len(rec), obs |-> nobs, emitted |-> nemit])>>)
=============================================================================
