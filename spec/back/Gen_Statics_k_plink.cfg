SPECIFICATION Spec
CONSTANTS
  NFns = 1
  MinArity = 1
  MaxArity = 1
  Kinds = {"static","static_inline"}
  Shapes = {"plain"}
  ArgSet = "mini"
  RetSet = "int"
  OptSet = "plink"
  FixedToks = TRUE
INVARIANTS Emitted PredictedBijection
CHECK_DEADLOCK FALSE
