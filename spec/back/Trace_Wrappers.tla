---------------------------- MODULE Trace_Wrappers ----------------------------
(***************************************************************************)
(* Validation of observed --wrap-static-fns runs against Wrappers.tla      *)
(* (impl -> spec).  Input: NDJSON ($TRACE), one line per library:          *)
(*  {ev:"lib", case, target, suffix:[chars],                               *)
(*   bindings:[{cname, internal, variadic, kind, shape, ident:[chars],     *)
(*              link:{kind,name:[chars]}, abi,                             *)
(*              pred:{binding, ident:[chars], link:{kind,name}}}],         *)
(*   unbound:[{cname, internal, variadic, pred}]  functions without binding*)
(*   wrapperdefs:[[chars]]  external symbols the compiled wrapper source   *)
(*                          defines (nm), [] when no source was written    *)
(*   externsyms:[[chars]]   external function symbols of the headers' own  *)
(*                          translation unit (nm) }                        *)
(* Property predicates (violations): every binding resolves (NoDangling);  *)
(* wrappers and wrapped bindings are in bijection; every wrapper is named  *)
(* <something><suffix>; a variadic static has no binding.                  *)
(* Shape (DRIFT): decision / identifier / link name equal to Gen_Statics'  *)
(* prediction.                                                             *)
(***************************************************************************)
EXTENDS Wrappers, Json, IOUtils, TLC

Rec == ndJsonDeserialize(IOEnv.TRACE)

VARIABLES l, viol, drift, nb
vars == <<l, viol, drift, nb>>
Init == l = 1 /\ viol = <<>> /\ drift = <<>> /\ nb = 0

Range(s) == {s[i] : i \in DOMAIN s}
Link(b) == [kind |-> b.link.kind, name |-> b.link.name]
Sym(o, b) == RustSym(o.target, b.abi, b.ident, Link(b), 0, FALSE)
EndsWith(s, suf) == Len(s) >= Len(suf) /\ SubSeq(s, Len(s) - Len(suf) + 1, Len(s)) = suf
WSym(o, w) == PlatformMangle(o.target, "C", w, 0, FALSE)

RECURSIVE Collect(_, _)
Collect(items, acc) == IF items = <<>> THEN acc ELSE Collect(Tail(items), IF Len(acc) < 600 THEN Append(acc, Head(items)) ELSE acc)

LibViol(o) ==
  LET B == Range(o.bindings)
      W == Range(o.wrapperdefs)
      avail == Range(o.externsyms) \cup {WSym(o, w) : w \in W}
      dangling == {b \in B : Sym(o, b) \notin avail}
      internalB == {b \in B : b.internal}
      orphans == {w \in W : Cardinality({b \in internalB : Sym(o, b) = WSym(o, w)}) # 1}
      badsuffix == {w \in W : ~EndsWith(w, o.suffix)}
      variadicBound == {b \in B : b.internal /\ b.variadic}
      Mk(kind, b) == [case |-> o.case, what |-> kind, cname |-> b.cname, shape |-> b.shape, kind |-> b.kind,
                      ident |-> Str(b.ident), sym |-> Str(Sym(o, b))]
      MkW(kind, w) == [case |-> o.case, what |-> kind, cname |-> Str(w), shape |-> "", kind |-> "", ident |-> "", sym |-> Str(w)]
      SeqOf(S, f(_)) == LET RECURSIVE G(_) G(T) == IF T = {} THEN <<>> ELSE LET x == CHOOSE x \in T : TRUE IN <<f(x)>> \o G(T \ {x}) IN G(S)
  IN SeqOf(dangling, LAMBDA b : Mk("dangling", b))
     \o SeqOf(variadicBound, LAMBDA b : Mk("variadic-static-bound", b))
     \o SeqOf(orphans, LAMBDA w : MkW("wrapper-without-unique-binding", w))
     \o SeqOf(badsuffix, LAMBDA w : MkW("wrapper-not-named-with-suffix", w))

LibDrift(o) ==
  LET B == Range(o.bindings)
      bad == {b \in B : ~(b.pred.binding # "none" /\ b.pred.ident = b.ident /\ b.pred.link.kind = b.link.kind
                          /\ (b.pred.link.name = b.link.name \/ o.opaque))}
      un == {u \in Range(o.unbound) : u.pred.binding # "none"}
      SeqOf(S, f(_)) == LET RECURSIVE G(_) G(T) == IF T = {} THEN <<>> ELSE LET x == CHOOSE x \in T : TRUE IN <<f(x)>> \o G(T \ {x}) IN G(S)
  IN SeqOf(bad, LAMBDA b : [case |-> o.case, cname |-> b.cname, ident |-> Str(b.ident), pred |-> b.pred.binding])
     \o SeqOf(un, LAMBDA u : [case |-> o.case, cname |-> u.cname, ident |-> "", pred |-> u.pred.binding])

Step ==
  /\ l <= Len(Rec)
  /\ LET o == Rec[l] IN
     /\ viol' = Collect(LibViol(o), viol)
     /\ drift' = Collect(LibDrift(o), drift)
     /\ nb' = nb + Len(o.bindings)
  /\ l' = l + 1

Spec == Init /\ [][Step]_vars
Finished == l = Len(Rec) + 1
Report == Finished =>
  /\ PrintT(<<"VIOL", ToJson(viol)>>)
  /\ PrintT(<<"DRIFT", ToJson(drift)>>)
  /\ PrintT(<<"COUNTS", ToJson([libs |-> Len(Rec), bindings |-> nb])>>)
Post == TLCGet("stats").diameter = Len(Rec) + 1
=============================================================================
