SPECIFICATION Spec
CONSTANTS
  NFns = 12
  MinArity = 0
  MaxArity = 4
  Kinds = {"static","static_inline","extern","inline_extern","variadic_static","valist1","valist2","valist_only"}
  Shapes = {"plain","keyword"}
  ArgSet = "all"
  RetSet = "all"
  OptSet = "all"
  FixedToks = FALSE
INVARIANTS Emitted PredictedBijection
CHECK_DEADLOCK FALSE
