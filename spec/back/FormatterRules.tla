--------------------------- MODULE FormatterRules ---------------------------
(***************************************************************************)
(* C15: the state-free rules shared by Formatter.tla (protocol machine),   *)
(* WriteOut.tla (segments of the sink) and Trace_Formatter.tla (validation *)
(* of the `fmt` / `write_seg` hook events of real runs).                   *)
(***************************************************************************)
EXTENDS Naturals, Sequences

\* rustfmt: 0 = ok, 3 = "could not format some lines" (documented partial success)
SuccessCodes == {0, 3}

\* format_tokens after the join: by (output is UTF-8?, child reported success?)
TriageClass(utf8, success) ==
  IF utf8 THEN (IF success THEN "Formatted" ELSE "Fallback") ELSE "Source"

\* the order of the parent's protocol steps (events of the `fmt` hook)
NextStep == [start |-> "spawned", spawned |-> "drain_eof", drain_eof |-> "waited", waited |-> "joined"]

\* what Bindings::write puts in front of the body
Raw(n) == <<"raw", n>>
PreludeSegs(h, n) == (IF h THEN <<<<"header">>>> ELSE <<>>)
                     \o [j \in 1..n |-> Raw(j)]
                     \o (IF n > 0 THEN <<<<"sep">>>> ELSE <<>>)
PreludeKinds(h, n) == [j \in DOMAIN PreludeSegs(h, n) |-> PreludeSegs(h, n)[j][1]]

\* text of the body: the formatter's text only for a trusted child
BodyContent(class) == IF class = "Formatted" THEN "formatted" ELSE "tokens"
\* kind of the `write_seg` body event: by Ok / Err of format_tokens (Ok(source) counts as Ok)
BodySegKind(class) == IF class = "Fallback" THEN "body_tokens" ELSE "body_formatted"
=============================================================================
