SPECIFICATION Spec
CONSTANTS
  Kinds = {"Struct", "Fn"}
  Abis = {"C", "system"}
  BAttrs = {"none", "a"}
  FKinds = {"FFn"}
  FAttrs = {"none"}
  MaxForeign = 1
  MaxLen = 5
  MaxInner = 2
  MaxDepth = 0
  MaxNodes = 10
  UnsChoices = {TRUE}
  Uniform = TRUE
  Mutant = "none"
  Mode = "mc"
INVARIANTS InvItems InvModules InvMergeKey InvKindOrder InvIdempotent InvApply InvUniform
CHECK_DEADLOCK FALSE
