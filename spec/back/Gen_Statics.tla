---------------------------- MODULE Gen_Statics ----------------------------
(***************************************************************************)
(* Behaviour generator (spec -> impl) of C16: a behaviour is one header of *)
(* static / static inline / external / variadic / va_list functions over   *)
(* the C04 type universe plus the options of a --wrap-static-fns run.      *)
(* Printed with every behaviour: per function the decision none / plain /  *)
(* wrapped (Wrappers.tla over Symbols.FnStep), identifier, #[link_name],   *)
(* the name of the wrapper the emitted source must define, the Rust        *)
(* function-pointer type of the binding, the token-protocol checksums;     *)
(* per library the extension of the wrapper file and the exact set of      *)
(* external symbols it must define.                                        *)
(***************************************************************************)
EXTENDS Wrappers, FFITypes, TLC, Json

CONSTANTS NFns, MinArity, MaxArity, Kinds, Shapes, ArgSet, RetSet, OptSet, FixedToks

Reps == { Sc("bool"), Sc("schar"), Sc("ushort"), Sc("int"), Sc("ulong"), Sc("float"), Sc("double"),
          En("E_s", "c_int"), St("S3"), St("S8m"), St("struct_S12m"), St("S16id"), St("S17"), Un("union_U8"),
          Ptr("pc_char", TRUE, Sc("char")), Ptr("pc_pc_char", TRUE, Ptr("pc_char", TRUE, Sc("char"))),
          Arr("a4_int", FALSE, Sc("int"), 4), Arr("a2x3_int", FALSE, [k |-> "arrin", id |-> "x3_int", of |-> Sc("int"), len |-> 3], 2),
          Fp("cb_i_i", Sc("int"), <<Sc("int")>>), Fp("cb_S8m_ucpf", St("S8m"), <<Sc("uchar"), Ptr("pc_char", TRUE, Sc("char")), Sc("float")>>) }
Mini == { Sc("int"), Sc("double"), Ptr("pc_char", TRUE, Sc("char")), St("S8m") }
ArgPool == CASE ArgSet = "all" -> ArgTypes [] ArgSet = "reps" -> Reps [] ArgSet = "bool" -> {Sc("bool")}
             [] ArgSet = "mini" -> Mini [] OTHER -> ValueTypes
RetPool == CASE RetSet = "all" -> RetTypes [] RetSet = "bool" -> {Sc("bool")} [] RetSet = "int" -> {Sc("int")}
             [] OTHER -> (Reps \cap RetTypes) \cup {Void}

Opts == CASE OptSet = "c" -> {[lang |-> "c", suffix |-> "default", input |-> "path", cb |-> FALSE, plink |-> FALSE, stdbool |-> TRUE]}
          [] OptSet = "cxx" -> {[lang |-> "cxx", suffix |-> "default", input |-> "path", cb |-> FALSE, plink |-> FALSE, stdbool |-> TRUE]}
          [] OptSet = "plink" -> {[lang |-> "c", suffix |-> "default", input |-> "path", cb |-> FALSE, plink |-> TRUE, stdbool |-> TRUE]}
          [] OptSet = "nostdbool" -> {[lang |-> "c", suffix |-> "default", input |-> "path", cb |-> FALSE, plink |-> FALSE, stdbool |-> FALSE]}
          [] OptSet = "cb" -> {[lang |-> "c", suffix |-> "custom", input |-> "path", cb |-> TRUE, plink |-> FALSE, stdbool |-> TRUE]}
          [] OTHER -> [lang : {"c"}, suffix : {"default", "custom"}, input : {"path", "two", "contents"},
                       cb : BOOLEAN, plink : {FALSE}, stdbool : {TRUE}]

SuffixOf(o) == IF o.suffix = "default" THEN <<"_","_","e","x","t","e","r","n">> ELSE <<"_","w","2">>

KwPool == << <<"t","y","p","e">>, <<"m","a","t","c","h">>, <<"f","n">>, <<"i","m","p","l">>, <<"l","o","o","p">>,
             <<"m","o","v","e">>, <<"r","e","f">>, <<"s","e","l","f">>, <<"u","s","e">>, <<"m","o","d">>,
             <<"a","s">>, <<"i","n">>, <<"l","e","t">>, <<"m","u","t">>, <<"p","u","b">>, <<"b","o","x">>,
             <<"d","y","n">>, <<"g","e","n">>, <<"a","s","y","n","c">>, <<"a","w","a","i","t">>,
             <<"y","i","e","l","d">>, <<"w","h","e","r","e">>, <<"t","r","a","i","t">>, <<"c","r","a","t","e">>,
             <<"s","u","p","e","r">>, <<"u","n","s","a","f","e">>, <<"f","i","n","a","l">>, <<"m","a","c","r","o">>,
             <<"p","r","i","v">>, <<"s","t","r">>, <<"u","8">> >>

VARIABLES opt, lib, cur, seen, ovl
vars == <<opt, lib, cur, seen, ovl>>
NoCur == [kind |-> "none"]
Init == opt \in Opts /\ lib = <<>> /\ cur = NoCur /\ seen = {} /\ ovl = <<>>

FixedTok(t, pos) == IF NTok(t) <= 1 THEN 0 ELSE 1 + (pos % (NTok(t) - 1))
Weight(kind) == CASE kind \in {"static", "static_inline"} -> 4 [] OTHER -> 1
NVaList(kind) == CASE kind = "valist1" -> 1 [] kind = "valist2" -> 2 [] kind = "valist_only" -> 1 [] OTHER -> 0

Start(shape, kind, ar, unnamed, w) ==
  /\ cur = NoCur /\ Len(lib) < NFns /\ w <= Weight(kind)
  /\ kind \in {"variadic_static", "valist1", "valist2"} => ar >= 1
  /\ kind = "valist_only" => ar = 0
  /\ kind \notin {"static", "static_inline", "extern"} => shape = "plain"
  /\ shape = "keyword" => Len(lib) < Len(KwPool)
  /\ unnamed => kind \in {"static", "static_inline"} /\ ar >= 1
  /\ cur' = [kind |-> kind, shape |-> shape, args |-> <<>>, toks |-> <<>>, va |-> <<>>, vatoks |-> <<>>,
             want |-> ar, unnamed |-> unnamed, w |-> w,
             wantva |-> IF kind \in {"variadic_static", "valist1"} THEN (Len(lib) + ar) % 3 ELSE 0,
             vapos |-> IF kind = "valist1" THEN (IF (Len(lib) % 2 = 0) THEN ar ELSE ar - 1) ELSE ar]
  /\ UNCHANGED <<opt, lib, seen, ovl>>

HasFp(args) == \E i \in DOMAIN args : args[i].k = "fp"

AddArg(t, k) ==
  /\ cur.kind # "none" /\ Len(cur.args) < cur.want /\ k < NTok(t)
  /\ FixedToks => k = FixedTok(t, Len(cur.args))
  /\ t.k = "fp" => ~HasFp(cur.args)
  /\ cur.kind \in {"variadic_static", "valist1", "valist2", "inline_extern"} => t \in ValueTypes
  /\ cur' = [cur EXCEPT !.args = Append(@, t), !.toks = Append(@, k)]
  /\ UNCHANGED <<opt, lib, seen, ovl>>

AddVa(t, k) ==
  /\ cur.kind # "none" /\ Len(cur.args) = cur.want /\ Len(cur.va) < cur.wantva /\ k < NTok(t)
  /\ FixedToks => k = FixedTok(t, Len(cur.va) + 4)
  /\ cur' = [cur EXCEPT !.va = Append(@, t), !.vatoks = Append(@, k)]
  /\ UNCHANGED <<opt, lib, seen, ovl>>

RECURSIVE Tag(_, _)
Tag(ts, ks) == IF ts = <<>> THEN <<>>
               ELSE <<"_">> \o Dec(IdxOf(ts[1])) \o <<"t">> \o Dec(ks[1]) \o Tag(Tail(ts), Tail(ks))
KindLetter(k) == CASE k = "static" -> "s" [] k = "static_inline" -> "i" [] k = "extern" -> "e"
                   [] k = "inline_extern" -> "x" [] k = "variadic_static" -> "v" [] k = "valist1" -> "a"
                   [] k = "valist2" -> "b" [] OTHER -> "o"
NameOf(c, i, ret, rtok) ==
  IF c.shape = "keyword" THEN KwPool[1 + ((i * 7) % Len(KwPool))]
  ELSE <<KindLetter(c.kind)>> \o Dec(i) \o Tag(c.args, c.toks) \o Tag(c.va, c.vatoks)
       \o (IF c.unnamed THEN <<"u">> ELSE <<>>) \o <<"_", "r">> \o Dec(IdxOf(ret)) \o <<"t">> \o Dec(rtok)

CbToks(fp, k) == [j \in DOMAIN fp.args |-> (k + j) % NTok(fp.args[j])]
CbCode(args, toks) ==
  IF \E i \in DOMAIN args : args[i].k = "fp" /\ toks[i] >= 1
    THEN LET i == CHOOSE i \in DOMAIN args : args[i].k = "fp" IN Code(CbToks(args[i], toks[i]))
    ELSE 0 - 1

VaListTy == [k |-> "valist", id |-> "va_list"]
(* the parameter list as the header declares it: fixed arguments with the va_list(s) inserted *)
InsertAt(s, pos, x) == SubSeq(s, 1, pos) \o <<x>> \o SubSeq(s, pos + 1, Len(s))
Params(c) == CASE c.kind \in {"valist1", "valist_only"} -> InsertAt(c.args, c.vapos, VaListTy)
               [] c.kind = "valist2" -> c.args \o <<VaListTy, VaListTy>>
               [] OTHER -> c.args

RECURSIVE JoinP(_)
PTy(t) == IF t.k = "valist" THEN "*mut __va_list_tag" ELSE RustTy(t, FALSE)
JoinP(ts) == IF ts = <<>> THEN "" ELSE IF Len(ts) = 1 THEN PTy(ts[1]) ELSE PTy(ts[1]) \o ", " \o JoinP(Tail(ts))
SigOf(params, variadic, ret) ==
  "unsafe extern \"C\" fn(" \o JoinP(params) \o (IF variadic THEN ", ..." ELSE "") \o ")" \o RustRet(ret, FALSE, FALSE)

_WRAPPED == <<"_","w","r","a","p","p","e","d">>
LinkOut(l) == [kind |-> l.kind, name |-> Str(l.name)]

End(ret, rtok) ==
  /\ cur.kind # "none" /\ Len(cur.args) = cur.want /\ Len(cur.va) = cur.wantva
  /\ rtok < NTok(ret)
  /\ FixedToks => rtok = FixedTok(ret, 3)
  /\ cur.kind \in {"variadic_static", "valist1", "valist2", "valist_only", "inline_extern"} => ret \in ValueTypes \cup {Void}
  /\ LET i == Len(lib)
         name == NameOf(cur, i, ret, rtok)
         internal == cur.kind \notin {"extern", "inline_extern"}
         variadic == cur.kind = "variadic_static"
         cxx == opt.lang = "cxx"
         (* Itanium C++ names are opaque to the spec; all that matters is that they differ from the name *)
         mangled == IF cxx THEN <<"_", "Z">> \o (IF internal THEN <<"L">> ELSE <<>>) \o name ELSE name
         params == Params(cur)
         d == [name |-> name, mangled |-> mangled, linkov |-> IF opt.plink THEN <<"q", "_">> \o name ELSE None,
               abi |-> "C", variadic |-> variadic, internal |-> internal, mkind |-> "fn", template |-> FALSE,
               valist |-> NVaList(cur.kind), nargs |-> Len(params)]
         o == [wrapStatic |-> TRUE, suffix |-> SuffixOf(opt), abiOverride |-> <<>>]
         (* Function::parse: an `inline` function with external linkage is not parsed under --wrap-static-fns *)
         r == IF cur.kind = "inline_extern" THEN [emitted |-> FALSE, why |-> "inline-extern", seen |-> seen, ovl |-> ovl]
              ELSE FnStep(d, o, seen, ovl)
         asva == WrapAsVariadic(d, r, opt.cb)
         fixedparams == cur.args      \* the va_list pruned
         pred == IF r.emitted
                   THEN [binding |-> Decision(d, r),
                         ident |-> Str(IF asva THEN RustMangle(name \o _WRAPPED) ELSE r.ident),
                         link |-> LinkOut(r.link), wrapper |-> Str(r.wrapper), asva |-> asva,
                         sig |-> IF asva THEN SigOf(fixedparams, TRUE, ret) ELSE SigOf(params, FALSE, ret),
                         (* callable from Rust with tokens: no va_list value can be made up on the Rust side *)
                         callable |-> asva \/ NVaList(cur.kind) = 0,
                         code |-> Code(cur.toks \o cur.vatoks), cbcode |-> CbCode(cur.args, cur.toks), rtok |-> rtok,
                         sym |-> Str(RustSym("elf", r.abi, r.ident, r.link, 0, FALSE))]
                   ELSE [binding |-> "none", why |-> r.why]
     IN /\ lib' = Append(lib, [i |-> i, kind |-> cur.kind, shape |-> cur.shape, cname |-> Str(name),
                               args |-> [j \in DOMAIN cur.args |-> cur.args[j].id], toks |-> cur.toks,
                               va |-> [j \in DOMAIN cur.va |-> cur.va[j].id], vatoks |-> cur.vatoks,
                               vapos |-> cur.vapos, nvalist |-> NVaList(cur.kind), unnamed |-> cur.unnamed,
                               ret |-> ret.id, rtok |-> rtok, internal |-> internal, pred |-> pred])
        /\ seen' = r.seen /\ ovl' = r.ovl
  /\ cur' = NoCur
  /\ UNCHANGED opt

Next ==
  \/ \E s \in Shapes, k \in Kinds, ar \in MinArity..MaxArity, u \in BOOLEAN, w \in 1..(IF NFns > 1 THEN 4 ELSE 1) :
       Start(s, k, ar, u, w)
  \/ \E t \in ArgPool, k \in 0..5 : AddArg(t, k)
  \/ \E t \in VaTypes, k \in 0..5 : AddVa(t, k)
  \/ \E ret \in RetPool, rtok \in 0..5 : End(ret, rtok)
Spec == Init /\ [][Next]_vars

Done == Len(lib) = NFns /\ cur = NoCur

(* library-level predictions: wrapper file and the external symbols it defines *)
Wrapped == {i \in DOMAIN lib : lib[i].pred.binding = "wrapped"}
FilePred == [ext |-> IF opt.lang = "cxx" THEN "cpp" ELSE "c",
             written |-> Wrapped # {},
             defs |-> [j \in DOMAIN lib |-> IF j \in Wrapped THEN lib[j].pred.wrapper ELSE ""],
             (* assembly: #include "<header>" per input header, or the in-memory contents verbatim, *)
             (* before the wrappers                                                                *)
             assembly |-> IF opt.input = "contents" THEN "contents" ELSE "includes",
             suffix |-> Str(SuffixOf(opt))]
Emitted == Done => PrintT(<<"LIB", ToJson([opt |-> opt, fns |-> lib, file |-> FilePred])>>)

Ids(ts) == [j \in DOMAIN ts |-> ts[j].id]
TypeRow(t) == [id |-> t.id, k |-> t.k, ntok |-> NTok(t), rust |-> RustTy(t, FALSE), rustcn |-> RustTy(t, TRUE),
               args |-> IF t.k = "fp" THEN Ids(t.args) ELSE <<>>,
               ret |-> IF t.k = "fp" THEN t.ret.id ELSE "",
               retrust |-> IF t.k = "fp" /\ t.ret.k # "void" THEN RustTy(t.ret, FALSE) ELSE ""]
ASSUME PrintT(<<"TYPES", ToJson([j \in DOMAIN AllTypeSeq |-> TypeRow(AllTypeSeq[j])])>>)

(* generator-level sanity: in plain C with ordinary names no binding of a static function is left dangling *)
PredictedBijection ==
  (opt.lang = "c" /\ ~opt.plink) =>
     \A i \in DOMAIN lib : (lib[i].internal /\ lib[i].shape = "plain" /\ lib[i].pred.binding # "none")
                              => lib[i].pred.binding = "wrapped" /\ lib[i].pred.sym = lib[i].pred.wrapper
=============================================================================
