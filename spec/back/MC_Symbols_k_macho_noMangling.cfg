SPECIFICATION Spec
CONSTANTS
  Target = "macho"
  K = 1
  AsmUnderscore = FALSE
  SuffixLike = FALSE
  NoMangling = TRUE
  VarLinkOverride = FALSE
  Mutation = "none"
INVARIANTS SymbolsOK
CHECK_DEADLOCK FALSE
