SPECIFICATION Spec
CONSTANTS
  NFns = 1
  MinArity = 1
  MaxArity = 2
  Kinds = {"static_inline","static"}
  Shapes = {"plain"}
  ArgSet = "reps"
  RetSet = "int"
  OptSet = "c"
  FixedToks = TRUE
INVARIANTS Emitted PredictedBijection
CHECK_DEADLOCK FALSE
