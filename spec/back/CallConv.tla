------------------------------ MODULE CallConv ------------------------------
(***************************************************************************)
(* The calling convention of a declared function (C04: the declaration is  *)
(* call-compatible with the symbol).                                       *)
(*                                                                         *)
(* L1  Compatible: for every calling convention the C compiler gives a     *)
(*     function on some target (the `cc` of the LLVM declaration), the     *)
(*     Rust ABI string whose convention is the same.  `extern "C"` is the  *)
(*     target's default convention - it is the right spelling only for the *)
(*     default.                                                            *)
(* L2  GetAbi: ir/function.rs get_abi, transcribed, on libclang's          *)
(*     CXCallingConv; conventions it does not know become Unknown, on      *)
(*     which codegen does not emit the function (it panics for functions   *)
(*     - a C12 matter - and skips function pointers).                      *)
(* L3  Sound: a declaration that IS emitted carries the compatible ABI;    *)
(*     emitting nothing is allowed, emitting another ABI never.            *)
(* SysVIsC = TRUE is the mutant that folds X86_64SysV into C (must fail:   *)
(* on Windows x64 the default is the Microsoft convention).                *)
(* The generator prints every convention; lib/c04_callconv.py finds, for   *)
(* each, (attribute, target) pairs on which clang reports it, runs the     *)
(* real bindgen for that target and compares the emitted `extern "..."`.   *)
(***************************************************************************)
EXTENDS Naturals, TLC, Json

CONSTANT SysVIsC

(* libclang CXCallingConv (the ones a C declaration can get on x86, x86-64, arm, aarch64) *)
Conventions == {"Default", "C", "X86StdCall", "X86FastCall", "X86ThisCall", "X86VectorCall", "AArch64VectorCall",
                "AAPCS", "X86_64Win64", "X86_64SysV", "X86RegCall", "AAPCS_VFP", "PreserveMost", "PreserveAll"}

(* L1: LLVM cc of the declaration  ->  Rust ABI string; "-" where Rust has no spelling for it *)
Compatible(cc) ==
  CASE cc \in {"Default", "C"} -> "C"
    [] cc = "X86StdCall" -> "stdcall"
    [] cc = "X86FastCall" -> "fastcall"
    [] cc = "X86ThisCall" -> "thiscall"
    [] cc \in {"X86VectorCall", "AArch64VectorCall"} -> "vectorcall"
    [] cc = "AAPCS" -> "aapcs"
    [] cc = "X86_64Win64" -> "win64"
    [] cc = "X86_64SysV" -> "sysv64"
    [] OTHER -> "-"

(* L2 *)
GetAbi(cc) ==
  CASE cc \in {"Default", "C"} -> "C"
    [] cc = "X86_64SysV" /\ SysVIsC -> "C"
    [] cc = "X86StdCall" -> "stdcall"
    [] cc = "X86FastCall" -> "fastcall"
    [] cc = "X86ThisCall" -> "thiscall"
    [] cc \in {"X86VectorCall", "AArch64VectorCall"} -> "vectorcall"
    [] cc = "AAPCS" -> "aapcs"
    [] cc = "X86_64Win64" -> "win64"
    [] OTHER -> "unknown"             \* nothing is emitted

VARIABLE cc
Init == cc \in Conventions
Next == UNCHANGED cc
Spec == Init /\ [][Next]_cc

Sound == GetAbi(cc) # "unknown" => GetAbi(cc) = Compatible(cc)
(* what the code gives up on although Rust could spell it: recorded, not a violation of C04 *)
Incomplete == GetAbi(cc) = "unknown" /\ Compatible(cc) # "-"
Emit == PrintT(<<"CC", ToJson([cc |-> cc, emitted |-> GetAbi(cc), compatible |-> Compatible(cc)])>>)
=============================================================================
