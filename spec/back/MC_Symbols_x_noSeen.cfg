SPECIFICATION Spec
CONSTANTS
  Target = "elf"
  K = 2
  AsmUnderscore = FALSE
  SuffixLike = FALSE
  NoMangling = FALSE
  VarLinkOverride = FALSE
  Mutation = "noSeen"
INVARIANTS OneBindingPerSymbol
CHECK_DEADLOCK FALSE
