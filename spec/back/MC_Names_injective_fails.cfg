SPECIFICATION Spec
CONSTANTS
  Alphabet = {"a", "f", "n", "$", "_"}
  MaxLen = 3
  Keywords <- KW
INVARIANT Injective
CHECK_DEADLOCK FALSE
