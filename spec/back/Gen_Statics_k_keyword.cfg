SPECIFICATION Spec
CONSTANTS
  NFns = 1
  MinArity = 1
  MaxArity = 1
  Kinds = {"static","static_inline","extern"}
  Shapes = {"keyword"}
  ArgSet = "mini"
  RetSet = "int"
  OptSet = "c"
  FixedToks = TRUE
INVARIANTS Emitted PredictedBijection
CHECK_DEADLOCK FALSE
