------------------------------- MODULE Names -------------------------------
(***************************************************************************)
(* L1/L2 of identifier generation (ir/context.rs::rust_mangle, the name    *)
(* tables of codegen).  C identifiers are sequences of characters; Mangle  *)
(* replaces '@', '?', '$' by '_' and appends '_' to Rust keywords and to    *)
(* names that contained such a character.  L1: two distinct C declarations *)
(* of one module never get the same Rust identifier.  Mangle is not         *)
(* injective; TLC enumerates the colliding pairs of a bounded universe and  *)
(* each is replayed on the real bindgen + rustc before anything is          *)
(* concluded.  Closure: every path used in type position is defined in the  *)
(* module, a generic parameter, a primitive, or allowed to be unresolved.   *)
(***************************************************************************)
EXTENDS Naturals, Sequences, FiniteSets, TLC, Json

CONSTANTS Alphabet, MaxLen, Keywords    \* Keywords: set of character sequences

KW == {<<"f", "n">>, <<"a", "s">>, <<"_">>}   \* model keywords: fn, as, _
Special == {"$"}
Names == UNION {[1..n -> Alphabet] : n \in 1..MaxLen}
Valid(n) == n[1] # "_" \/ Len(n) > 1          \* a lone "_" is not a C identifier we generate

HasSpecial(n) == \E i \in DOMAIN n : n[i] \in Special
Mangle(n) ==
  IF HasSpecial(n) \/ n \in Keywords
  THEN [i \in 1..(Len(n) + 1) |-> IF i = Len(n) + 1 THEN "_" ELSE IF n[i] \in Special THEN "_" ELSE n[i]]
  ELSE n

Str(s) == LET RECURSIVE F(_) F(i) == IF i > Len(s) THEN "" ELSE s[i] \o F(i + 1) IN F(1)

VARIABLES a, b
Init == a \in Names /\ b \in Names /\ a # b
Next == UNCHANGED <<a, b>>
Spec == Init /\ [][Next]_<<a, b>>

Collide == Mangle(a) = Mangle(b)
(* print every colliding pair once *)
Emit == Collide => PrintT(<<"COLLISION", ToJson([a |-> Str(a), b |-> Str(b), rust |-> Str(Mangle(a))])>>)
(* sensitivity: the claim "Mangle is injective" must fail *)
Injective == ~Collide
(* mangling never produces a keyword and never changes a plain non-keyword name *)
NeverKeyword == Mangle(a) \notin Keywords
Identity == (~HasSpecial(a) /\ a \notin Keywords) => Mangle(a) = a

(* Closure of a module: uses \subseteq defs \cup allowed *)
Closed(defs, uses, allowed) == uses \subseteq (defs \cup allowed)
=============================================================================
