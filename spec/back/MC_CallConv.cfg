SPECIFICATION Spec
CONSTANTS
  SysVIsC = FALSE
INVARIANTS Sound Emit
CHECK_DEADLOCK FALSE
