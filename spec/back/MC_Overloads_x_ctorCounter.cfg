SPECIFICATION Spec
CONSTANTS
  Base = {"send", "new1", "Chan1"}
  MaxDecls = 4
  MaxCtors = 3
  Probing = FALSE
INVARIANTS UniqueMethods
CHECK_DEADLOCK FALSE
