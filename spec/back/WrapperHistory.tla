--------------------------- MODULE WrapperHistory ---------------------------
(***************************************************************************)
(* C16 over histories: the wrapper source is a FILE at a configured path,   *)
(* and a build script generates into the same path again and again while    *)
(* the headers change.  State: what the file at the path defines; actions:  *)
(* one generation each (codegen/mod.rs utils::serialize_items, called from  *)
(* codegen() after all bindings have been produced):                        *)
(*   - nothing to serialize            -> the file is not touched           *)
(*   - some item cannot be serialized  -> Err(CodegenError::Serialize): no  *)
(*     bindings at all, the file is not touched (the error is raised while  *)
(*     the text is still in memory)                                         *)
(*   - otherwise the whole text is written with std::fs::write, which       *)
(*     REPLACES the previous contents.                                      *)
(* A function is a record [name, kind]; kinds                               *)
(*   "plain"    static function over supported types   -> wrapped binding   *)
(*   "variadic" static variadic function               -> no binding        *)
(*   "unsup"    a type kind CSerialize rejects (__int128, vector types)     *)
(*   "extern"   ordinary external function             -> plain binding     *)
(* WriteMode / OnSerializeError select the code ("replace" / "fail") or a   *)
(* mutant ("overlay": written over the old bytes without truncation;        *)
(* "skip": the item is skipped with a warning and its binding stays).       *)
(***************************************************************************)
EXTENDS Naturals, Sequences, FiniteSets, TLC

CONSTANTS Fns,              \* set of [name |-> n, kind |-> k], names are 1..N (declaration order)
          MaxSteps,
          WriteMode,        \* "replace" | "overlay"
          OnSerializeError  \* "fail" | "skip"

VARIABLES file,     \* sequence of function names: the wrapper definitions in the file, in order
          exists,   \* the file exists
          result,   \* "none" | "ok" | "err"        result of the last generation
          bound,    \* names with a wrapped binding in the last generation's bindings
          hist      \* the generations so far: header (set of names) and the state each one left
vars == <<file, exists, result, bound, hist>>

ByName(n) == CHOOSE f \in Fns : f.name = n
Kind(n) == ByName(n).kind
Names == {f.name : f \in Fns}

RECURSIVE Sorted(_)
Sorted(S) == IF S = {} THEN <<>>
             ELSE LET m == CHOOSE x \in S : \A y \in S : x <= y IN <<m>> \o Sorted(S \ {m})

(* Function::codegen: which declarations get a wrapped binding and are pushed on items_to_serialize *)
Serialized(H) == {n \in H : Kind(n) \in {"plain", "unsup"}}
Fails(H) == OnSerializeError = "fail" /\ \E n \in Serialized(H) : Kind(n) = "unsup"
Written(H) == Sorted({n \in Serialized(H) : Kind(n) = "plain"})     \* "skip" drops what it cannot spell

Overlay(old, new) == new \o (IF Len(old) > Len(new) THEN SubSeq(old, Len(new) + 1, Len(old)) ELSE <<>>)

Init == file = <<>> /\ exists = FALSE /\ result = "none" /\ bound = {} /\ hist = <<>>

Generate(H) ==
  /\ Len(hist) < MaxSteps
  /\ IF Fails(H)
     THEN result' = "err" /\ bound' = {} /\ UNCHANGED <<file, exists>>
     ELSE /\ result' = "ok"
          /\ bound' = Serialized(H)
          /\ IF Serialized(H) = {}
             THEN UNCHANGED <<file, exists>>
             ELSE /\ exists' = TRUE
                  /\ file' = IF WriteMode = "replace" THEN Written(H) ELSE Overlay(file, Written(H))
  /\ hist' = Append(hist, [h |-> H, result |-> result', bound |-> bound', file |-> file', exists |-> exists'])

Next == \E H \in SUBSET Names : Generate(H)
Spec == Init /\ [][Next]_vars

-----------------------------------------------------------------------------
(* the property, on the state after a generation that produced bindings with wrappers *)
Count(n) == Cardinality({i \in 1..Len(file) : file[i] = n})
Emitted == result = "ok" /\ bound # {}
(* every wrapped binding resolves to exactly one definition in the emitted source *)
NoDangling == Emitted => \A n \in bound : Count(n) = 1
(* and the emitted source defines nothing else *)
NoExtra == Emitted => \A i \in 1..Len(file) : file[i] \in bound
(* variadic statics are never bound *)
VariadicUnbound == \A n \in bound : Kind(n) # "variadic"
(* an unsupported item never leaves a binding behind *)
UnsupportedUnbound == result = "ok" => \A n \in bound : Kind(n) # "unsup"
TypeOK == result \in {"none", "ok", "err"} /\ bound \subseteq Names /\ (exists \/ file = <<>>)
=============================================================================
