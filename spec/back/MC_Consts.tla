----------------------------- MODULE MC_Consts -----------------------------
(***************************************************************************)
(* Bounded model of Consts: the macro table as a state machine over every  *)
(* directive sequence up to MaxLen, plus the state-independent obligations *)
(* on Kind / enums / const variables (checked in the initial state).       *)
(* With PrintPrograms the same machine is the behaviour generator of the   *)
(* replay direction: every reachable state is one header, printed with the *)
(* table the spec predicts for bindgen and the values C has at the end.    *)
(***************************************************************************)
EXTENDS Consts, Json

CONSTANTS Names, Vals, MaxLen, AllowRedef, AllowRaw, MaxVariants, AddDropped

VARIABLES st, prog, catdef
vars == <<st, prog, catdef>>

Body(t, m, v) == [t |-> t, m |-> m, v |-> v]
Bodies == {Body("lit", "", v) : v \in Vals} \cup {Body("ref", m, 0) : m \in Names}
          \cup {Body("add", m, 1) : m \in Names} \cup {Body("unsup", "", v) : v \in Vals}
          \cup (IF AllowRaw THEN {Body("rawadd", m, 1) : m \in Names} \cup {Body("mul2", m, 0) : m \in Names} ELSE {})

Init == /\ st = [defs |-> [n \in Names |-> NoDef], parsed |-> [n \in Names |-> None],
                 emitted |-> [n \in Names |-> None]]
        /\ prog = <<>>
        /\ catdef = [n \in Names |-> None]

EverDefined(n) == \E i \in DOMAIN prog : prog[i].d = "define" /\ prog[i].n = n

(* sensitivity: an evaluator that forgets the addend of (m + v)             *)
Mut(b) == IF AddDropped /\ b.t \in {"add", "rawadd"} THEN Body("ref", b.m, 0) ELSE b

Define(n, b) ==
  /\ Len(prog) < MaxLen
  /\ AllowRedef \/ ~EverDefined(n)
  /\ LET s1 == DoDefine(st, n, Mut(b))
         s2 == [s1 EXCEPT !.defs[n] = b]
     IN /\ st' = s2
        /\ catdef' = IF st.emitted[n] = None /\ s2.emitted[n] # None
                     THEN [catdef EXCEPT ![n] = CVal(s2.defs, n)] ELSE catdef
  /\ prog' = Append(prog, [d |-> "define", n |-> n, b |-> b])

Undef(n) ==
  /\ Len(prog) < MaxLen /\ AllowRedef
  /\ st.defs[n] # NoDef
  /\ st' = DoUndef(st, n)
  /\ prog' = Append(prog, [d |-> "undef", n |-> n, b |-> NoDef])
  /\ UNCHANGED catdef

Next == \E n \in Names : (\E b \in Bodies : Define(n, b)) \/ Undef(n)
Spec == Init /\ [][Next]_vars

(* ---- L3 obligations on the table ---------------------------------------- *)
CEnd(n) == CVal(st.defs, n)
(* the property: what is emitted is what C has after the header             *)
EmittedEqualAtEnd == \A n \in Names : (st.emitted[n] # None /\ CEnd(n) # None) => st.emitted[n] = CEnd(n)
(* weaker: ... is what C had where the constant was first defined           *)
EmittedEqualAtDef == \A n \in Names : (st.emitted[n] # None /\ catdef[n] # None) => st.emitted[n] = catdef[n]
(* shape of L2 that always holds: a constant is emitted once and never      *)
(* changes; the table only knows names that were defined                    *)
TableShape == /\ \A n \in Names : st.emitted[n] # None => st.parsed[n] # None
              /\ \A n \in Names : st.parsed[n] # None => EverDefined(n)
              /\ \A n \in Names : ~EverDefined(n) => st.defs[n] = NoDef
EmittedStable == [][\A n \in Names : st.emitted[n] # None => st.emitted'[n] = st.emitted[n]]_vars

(* ---- state-independent obligations (evaluated once) --------------------- *)
EnumTokens == {<<5, -1>>, <<5, 0>>, <<5, 1>>, <<2, 0>>, <<10, -1>>, <<10, 0>>, <<11, -1>>, <<11, 0>>,
               <<1, 0>>, <<12, -1>>, <<12, 0>>, <<13, -1>>, <<6, -1>>, <<7, -1>>, <<4, 0>>}
FixedTypes == {NoFixed} \cup {CTy(w, s) : w \in {8, 16, 32, 64}, s \in BOOLEAN}
EnumSpecs == UNION {[1..k -> {Imp} \cup EnumTokens] : k \in 1..MaxVariants}
EnumSoundAll == \A f \in FixedTypes, sp \in EnumSpecs : EnumSound(f, sp)
AtInit(P) == (prog = <<>>) => P
InvKind == AtInit(KindSound /\ KindDefaultRespected /\ KindFitMinimal /\ KindNoFitAtLeast32)
InvVar == AtInit(VarSound)
InvEnum == AtInit(EnumSoundAll)
InvChannel == AtInit(ChannelSound)
(* the same obligation, printing every counterexample (region, option set)  *)
ChannelCex(dummy) == \A c \in Regions, o \in Opts : \A s \in SeenAs(c) :
                 \/ Holds(Kind(s, o), c) /\ SameSign(Kind(s, o), c, s)
                 \/ PrintT(<<"CEX", ToJson([cregion |-> c, cname |-> RegionName[c], seen |-> s, kind |-> Kind(s, o),
                                            signed |-> o.signed, fit |-> o.fit])>>)
InvChannelP == AtInit(ChannelCex(prog) /\ ChannelSound)

(* ---- sensitivity material ------------------------------------------------ *)
BadCutU32 == 12          \* Kind keeps u32 for values above u32max
BadCutI32Min == 1        \* Kind keeps i32 for values below i32min
BadCutI8Max == 7         \* fit: i8 for values above i8max
RowsMissingU64 == {<<TRUE, 8>>, <<FALSE, 8>>, <<TRUE, 16>>, <<FALSE, 16>>, <<TRUE, 32>>, <<FALSE, 32>>, <<TRUE, 64>>}

(* ---- generator ------------------------------------------------------------ *)
NDefs(n) == Cardinality({i \in DOMAIN prog : prog[i].d = "define" /\ prog[i].n = n})
Why(n) == IF NDefs(n) > 1 THEN "redefined"
          ELSE IF st.emitted[n] = CValParen(st.defs, n) THEN "unparenthesised-referent"
          ELSE IF catdef[n] # None /\ st.emitted[n] = catdef[n] THEN "referent-changed-later"
          ELSE "stale-table-entry"
Rec == [prog |-> prog,
        emitted |-> [n \in Names |-> st.emitted[n]],
        cend |-> [n \in Names |-> CEnd(n)],
        catdef |-> [n \in Names |-> catdef[n]],
        mismatch |-> [n \in {m \in Names : st.emitted[m] # None /\ CEnd(m) # None /\ st.emitted[m] # CEnd(m)} |-> Why(n)]]
PrintPrograms == prog # <<>> => PrintT(<<"PROG", ToJson(Rec)>>)
EmittedEqualAtEndP == EmittedEqualAtEnd \/ (PrintT(<<"CEX", ToJson(Rec)>>) /\ FALSE)
EmittedEqualAtDefP == EmittedEqualAtDef \/ (PrintT(<<"CEX", ToJson(Rec)>>) /\ FALSE)
=============================================================================
