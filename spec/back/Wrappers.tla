------------------------------ MODULE Wrappers ------------------------------
(***************************************************************************)
(* C16: --wrap-static-fns.  For every function the code-generation step    *)
(* of Symbols.tla (FnStep, with wrapStatic) decides                        *)
(*     none    - no binding (external `inline`, variadic static, skipped)  *)
(*     plain   - a binding to the function's own symbol                    *)
(*     wrapped - a binding whose #[link_name] is <canonical name><suffix>, *)
(*               the function is pushed on items_to_serialize              *)
(* and codegen/serialize.rs writes one C wrapper <Function::name><suffix>  *)
(* per serialized item into <path>.c / .cpp after the #include lines (or   *)
(* the in-memory header contents).  wrap_as_variadic_fn (a single va_list  *)
(* parameter among >= 2 and a callback that names the wrapper) turns the   *)
(* binding into a variadic one.                                            *)
(*                                                                         *)
(* L3: every binding of an internal function resolves to exactly one       *)
(* externally visible wrapper and vice versa; no binding whose symbol      *)
(* nothing defines; variadic statics get no binding.                       *)
(***************************************************************************)
EXTENDS Symbols

(* d: declaration record of Symbols.tla + valist (number of va_list parameters), nargs *)
WrapAsVariadic(d, r, cb) ==
  r.emitted /\ r.wrapped /\ ~d.variadic /\ d.nargs >= 2 /\ d.valist = 1 /\ cb

Decision(d, r) ==
  IF ~r.emitted THEN "none" ELSE IF r.wrapped THEN "wrapped" ELSE "plain"

(* the wrapper source: one definition per serialized item, in order *)
WrapperFile(sers, isCpp) == [ext |-> IF isCpp THEN "cpp" ELSE "c", defs |-> sers]

(* symbols that exist at link time for a library: what the C/C++ compiler emits for the external *)
(* functions of the headers + the external definitions of the wrapper file                       *)
Available(externSyms, wrapperDefs, target) ==
  externSyms \cup {PlatformMangle(target, "C", w, 0, FALSE) : w \in wrapperDefs}

(* out: set of [d, r]; wrapperDefs: names defined by the wrapper file *)
NoDangling(out, externSyms, wrapperDefs, target) ==
  \A e \in out : e.r.emitted =>
    RustSym(target, e.r.abi, e.r.ident, e.r.link, 0, FALSE) \in Available(externSyms, wrapperDefs, target)

WrapperPerBinding(out, wrapperDefs, target) ==
  /\ \A e \in out : (e.r.emitted /\ e.r.wrapped) =>
        \E w \in wrapperDefs : PlatformMangle(target, "C", w, 0, FALSE)
                                 = RustSym(target, e.r.abi, e.r.ident, e.r.link, 0, FALSE)
  /\ \A w \in wrapperDefs :
        Cardinality({e \in out : e.r.emitted /\ e.r.wrapped /\
                       RustSym(target, e.r.abi, e.r.ident, e.r.link, 0, FALSE)
                         = PlatformMangle(target, "C", w, 0, FALSE)}) = 1

InternalNeverPlain(out) == \A e \in out : (e.d.internal /\ e.r.emitted) => e.r.wrapped
VariadicStaticUnbound(out) == \A e \in out : (e.d.internal /\ e.d.variadic) => ~e.r.emitted
=============================================================================
