SPECIFICATION Spec
INVARIANT Report
POSTCONDITION Post
CHECK_DEADLOCK FALSE
