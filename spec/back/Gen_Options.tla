----------------------------- MODULE Gen_Options -----------------------------
(* Behaviour generator: option vectors over the flag space of property C01,   *)
(* built one choice per step so that TLC's simulation mode samples the        *)
(* 2^21 x 5 x 3 x 2 x 3 space uniformly per option.  Every emitted vector     *)
(* satisfies the dependencies the builder itself enforces.                     *)
EXTENDS Naturals, Sequences, TLC, Json
BoolSeq == <<"derive_default", "derive_hash", "derive_partialeq", "derive_eq", "derive_partialord", "derive_ord",
             "no_derive_copy", "no_derive_debug", "impl_debug", "impl_partialeq", "namespaces", "c_naming",
             "explicit_padding", "flexarray_dst", "use_core", "no_layout_tests", "sort", "merge", "wrap_unsafe_ops",
             "no_prepend_enum_name", "ctypes_prefix">>
VARIABLES o, i, enumstyle, aliasstyle, unionstyle, edition
vars == <<o, i, enumstyle, aliasstyle, unionstyle, edition>>
Init == /\ o = <<>> /\ i = 1
        /\ enumstyle \in {"consts", "moduleconsts", "newtype", "bitfield", "rust"}
        /\ aliasstyle \in {"type_alias", "new_type", "new_type_deref"}
        /\ unionstyle \in {"bindgen_wrapper", "manually_drop"}
        /\ edition \in {"2018", "2021", "2024"}
Choose == /\ i <= Len(BoolSeq)
          /\ \E v \in BOOLEAN : o' = (BoolSeq[i] :> v) @@ o
          /\ i' = i + 1
          /\ UNCHANGED <<enumstyle, aliasstyle, unionstyle, edition>>
Next == Choose
Spec == Init /\ [][Next]_vars
Done == i = Len(BoolSeq) + 1
Sensible == /\ (o["derive_eq"] => o["derive_partialeq"])
            /\ (o["derive_ord"] => o["derive_partialord"] /\ o["derive_eq"])
            /\ (o["derive_partialord"] => o["derive_partialeq"])
Emit == (Done /\ Sensible) => PrintT(<<"OPTS", ToJson([o |-> o, enumstyle |-> enumstyle, aliasstyle |-> aliasstyle,
                                 unionstyle |-> unionstyle, edition |-> edition])>>)
=============================================================================
