SPECIFICATION Spec
CONSTANTS
  SysVIsC = TRUE
INVARIANTS Sound
CHECK_DEADLOCK FALSE
