SPECIFICATION Spec
CONSTANTS
  Kinds = {"Type", "Struct", "Const", "Fn", "Enum", "Union", "Static", "Impl", "Use"}
  Abis = {"C", "system"}
  BAttrs = {"none", "a", "b"}
  FKinds = {"FFn", "FStatic"}
  FAttrs = {"none", "b"}
  MaxForeign = 1
  MaxLen = 3
  MaxInner = 2
  MaxDepth = 1
  MaxNodes = 5
  UnsChoices = {TRUE}
  Uniform = TRUE
  Mutant = "none"
  Mode = "mc"
INVARIANTS InvItems InvModules InvMergeKey InvKindOrder InvIdempotent InvApply InvUniform
CHECK_DEADLOCK FALSE
