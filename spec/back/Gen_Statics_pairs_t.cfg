SPECIFICATION Spec
CONSTANTS
  NFns = 1
  MinArity = 2
  MaxArity = 2
  Kinds = {"static_inline"}
  Shapes = {"plain"}
  ArgSet = "all"
  RetSet = "int"
  OptSet = "c"
  FixedToks = TRUE
INVARIANTS Emitted PredictedBijection
CHECK_DEADLOCK FALSE
