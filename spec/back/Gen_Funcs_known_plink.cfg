SPECIFICATION Spec
CONSTANTS
  NFns = 1
  MinArity = 0
  MaxArity = 0
  Kinds = {"gvar"}
  Shapes = {"plain"}
  ArgSet = "reps"
  RetSet = "int"
  OptSet = "plink"
  FixedToks = TRUE
  Pad = FALSE
INVARIANTS Emitted UniqueIdents PredictedSymbolsOK
CHECK_DEADLOCK FALSE
