SPECIFICATION Spec
CONSTANTS
  Target = "win32"
  K = 3
  AsmUnderscore = FALSE
  SuffixLike = FALSE
  NoMangling = FALSE
  VarLinkOverride = FALSE
  Mutation = "none"
INVARIANTS SymbolsOK UniqueIdents OneBindingPerSymbol LinkNameIff
CHECK_DEADLOCK FALSE
