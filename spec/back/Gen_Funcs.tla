----------------------------- MODULE Gen_Funcs -----------------------------
(***************************************************************************)
(* Behaviour generator (spec -> impl) of C04: a behaviour is one library   *)
(* of C functions and globals (one header), built declaration by          *)
(* declaration; every complete behaviour is printed once as JSON together  *)
(* with what the specification predicts for the real bindgen + compilers:  *)
(*   - emitted or skipped (and why), Rust identifier, #[link_name], ABI    *)
(*     string (Symbols.tla, run over the library in declaration order),    *)
(*   - the Rust function-pointer type the binding must coerce to           *)
(*     (FFITypes.tla: ArgLower),                                           *)
(*   - the checksum the C definition computes when the Rust caller passes  *)
(*     the chosen boundary tokens (token protocol: digit i = token index   *)
(*     of argument i, base 7), the token the return value classifies to,   *)
(*     and the checksum a Rust callback computes when C calls it back.     *)
(* lib/ffi.py renders header + definitions + caller; lib/checks/c04.py     *)
(* runs the real bindgen, clang, rustc, nm and the executable.             *)
(*                                                                         *)
(* Modes are selected by constants: exhaustive sweeps (NFns = 1, BFS) and  *)
(* random libraries (-simulate).                                           *)
(***************************************************************************)
EXTENDS Symbols, FFITypes, TLC, Json

CONSTANTS NFns,        \* declarations per library
          MinArity, MaxArity,
          Kinds,       \* subset of {"fn","variadic","noreturn","msabi","inline","static","vectorcall","gvar"}
          Shapes,      \* subset of {"plain","keyword","dollar","asm","asmu","renamed","kwtail","dollartail"}
                       \* kwtail / dollartail: the LITERAL C name is what rust_mangle makes of the neighbouring
                       \* declaration's name (`match_` next to `match`, `f_x_` next to `f$x`): the Rust
                       \* identifiers collide, the overload counter renames the second one and only the
                       \* link name still says which symbol is meant
          ArgSet,      \* "all" | "reps" | "value"
          RetSet,      \* "int" | "all" | "reps"
          OptSet,      \* "none" | "all" | "plink" (--prefix-link-name only)
          FixedToks,   \* TRUE: token of an argument is a function of its position
          Pad          \* TRUE: a prefix of 0..6 longs and 0 or 8 doubles exhausts the registers first

Reps == { Sc("bool"), Sc("schar"), Sc("uchar"), Sc("short"), Sc("ushort"), Sc("int"), Sc("uint"),
          Sc("long"), Sc("ullong"), Sc("float"), Sc("double"), En("E_s", "c_int"),
          St("S1"), St("S3"), St("S8m"), St("S8f"), St("struct_S12m"), St("S16id"), St("S16di"), St("S16f"),
          St("S17"), St("S24d"), Un("union_U8"), Un("U16"), Ptr("pc_char", TRUE, Sc("char")),
          Arr("a4_int", FALSE, Sc("int"), 4), Fp("cb_i_i", Sc("int"), <<Sc("int")>>) }

ArgPool == CASE ArgSet = "all" -> ArgTypes [] ArgSet = "reps" -> Reps [] OTHER -> ValueTypes
RetPool == CASE RetSet = "int" -> {Sc("int")} [] RetSet = "reps" -> (Reps \cap RetTypes) \cup {Void}
             [] OTHER -> RetTypes

Bools(on) == IF on THEN BOOLEAN ELSE {FALSE}
Opts == IF OptSet \in {"none", "plink"}
          THEN {[merge |-> FALSE, sort |-> FALSE, cnaming |-> FALSE, inl |-> FALSE, rename |-> FALSE,
                 plink |-> OptSet = "plink", abiov |-> "none", distrust |-> d] : d \in (IF OptSet = "none" THEN BOOLEAN ELSE {FALSE})}
          ELSE [merge : BOOLEAN, sort : BOOLEAN, cnaming : BOOLEAN, inl : BOOLEAN, rename : BOOLEAN,
                plink : BOOLEAN, abiov : {"none", "C-unwind", "system"}, distrust : BOOLEAN]

(* Rust keywords that are ordinary identifiers in C *)
KwPool == << <<"t","y","p","e">>, <<"m","a","t","c","h">>, <<"f","n">>, <<"i","m","p","l">>,
             <<"l","o","o","p">>, <<"m","o","v","e">>, <<"r","e","f">>, <<"s","e","l","f">>,
             <<"u","s","e">>, <<"m","o","d">>, <<"a","s">>, <<"i","n">>, <<"l","e","t">>,
             <<"m","u","t">>, <<"p","u","b">>, <<"b","o","x">>, <<"d","y","n">>, <<"g","e","n">>,
             <<"a","s","y","n","c">>, <<"a","w","a","i","t">>, <<"y","i","e","l","d">>,
             <<"w","h","e","r","e">>, <<"t","r","a","i","t">>, <<"c","r","a","t","e">>,
             <<"s","u","p","e","r">>, <<"u","n","s","a","f","e">>, <<"f","i","n","a","l">>,
             <<"o","v","e","r","r","i","d","e">>, <<"a","b","s","t","r","a","c","t">>,
             <<"m","a","c","r","o">>, <<"p","r","i","v">>, <<"b","e","c","o","m","e">>,
             <<"s","t","r">>, <<"u","8">>, <<"i","3","2">>, <<"f","6","4">>, <<"u","s","i","z","e">>,
             <<"S","e","l","f">>, <<"_">> >>

VARIABLES opt, lib, cur, seen, vseen, ovl
vars == <<opt, lib, cur, seen, vseen, ovl>>

NoCur == [kind |-> "none"]
Init == /\ opt \in Opts /\ lib = <<>> /\ cur = NoCur /\ seen = {} /\ vseen = {} /\ ovl = <<>>

FixedTok(t, pos) == IF NTok(t) <= 1 THEN 0 ELSE 1 + (pos % (NTok(t) - 1))

PadArgs(pi, pd) == [j \in 1..pi |-> Sc("long")] \o [j \in 1..pd |-> Sc("double")]
PadToks(pi, pd) == [j \in 1..(pi + pd) |-> (j % 6)]

KwAt(i) == 1 + ((i * 7) % Len(KwPool))      \* distinct for i < Len(KwPool) (7 is coprime to it)

Weight(kind) == CASE kind = "fn" -> 5 [] kind = "gvar" -> 2 [] OTHER -> 1

Start(shape, kind, pi, pd, ar, w) ==
  /\ cur = NoCur /\ Len(lib) < NFns /\ w <= Weight(kind)
  /\ kind = "gvar" => shape \in {"plain", "keyword", "dollar", "asmu", "renamed"} /\ ar = 0
  /\ kind \in {"inline", "static", "vectorcall"} => shape = "plain"
  /\ kind = "variadic" => ar >= 1
  /\ shape = "renamed" => opt.rename
  (* --distrust-clang-mangling: the mangled name clang reports is not used, so an asm label is (by the user's own   *)
  (* choice) invisible - those shapes are not generated under it; everything else must still bind its symbol       *)
  /\ opt.distrust => shape \notin {"asm", "asmu", "renamed"}
  /\ shape = "keyword" => Len(lib) < Len(KwPool)
  /\ shape \in {"kwtail", "dollartail"} => kind = "fn" /\ NFns = 2 /\ pi + pd = 0
  /\ cur' = [kind |-> kind, shape |-> shape, args |-> PadArgs(pi, pd), toks |-> PadToks(pi, pd),
             va |-> <<>>, vatoks |-> <<>>,
             kw |-> IF shape = "keyword" THEN KwAt(Len(lib))
                    ELSE IF shape = "kwtail" THEN KwAt(1 - Len(lib)) ELSE 0,     \* the neighbour's keyword
             npad |-> pi + pd, want |-> ar, w |-> w,
             wantva |-> IF kind = "variadic" THEN (Len(lib) + ar) % 4 ELSE 0]
  /\ UNCHANGED <<opt, lib, seen, vseen, ovl>>

HasFp(args) == \E i \in DOMAIN args : args[i].k = "fp"

AddArg(t, k) ==
  /\ cur.kind \notin {"none", "gvar"} /\ cur.va = <<>>
  /\ Len(cur.args) - cur.npad < cur.want
  /\ k < NTok(t)
  /\ FixedToks => k = FixedTok(t, Len(cur.args))
  /\ t.k = "fp" => ~HasFp(cur.args) /\ cur.kind \in {"fn", "noreturn"}
  /\ cur.kind \in {"variadic", "msabi", "inline", "static", "vectorcall"} => t \in ValueTypes
  /\ cur' = [cur EXCEPT !.args = Append(@, t), !.toks = Append(@, k)]
  /\ UNCHANGED <<opt, lib, seen, vseen, ovl>>

AddVa(t, k) ==
  /\ cur.kind = "variadic" /\ Len(cur.args) - cur.npad = cur.want /\ Len(cur.va) < cur.wantva /\ k < NTok(t)
  /\ cur' = [cur EXCEPT !.va = Append(@, t), !.vatoks = Append(@, k)]
  /\ UNCHANGED <<opt, lib, seen, vseen, ovl>>

(***************************************************************************)
(* names                                                                   *)
(***************************************************************************)
RECURSIVE Tag(_, _)
Tag(ts, ks) == IF ts = <<>> THEN <<>>
               ELSE <<"_">> \o Dec(IdxOf(ts[1])) \o <<"t">> \o Dec(ks[1]) \o Tag(Tail(ts), Tail(ks))

KindLetter(k) == CASE k = "fn" -> "f" [] k = "variadic" -> "w" [] k = "noreturn" -> "n" [] k = "msabi" -> "m"
                   [] k = "inline" -> "i" [] k = "static" -> "s" [] k = "vectorcall" -> "c" [] OTHER -> "g"

BaseName(c, i, ret, rtok) ==
  <<KindLetter(c.kind)>> \o Dec(i) \o Tag(c.args, c.toks) \o Tag(c.va, c.vatoks)
  \o <<"_", "r">> \o Dec(IdxOf(ret)) \o <<"t">> \o Dec(rtok)

FUNCTION_ == <<"f","u","n","c","t","i","o","n","_">>
VAR_ == <<"v","a","r","_">>
_NAME == <<"_","n","a","m","e">>
ZZ == <<"z","z","_">>
Q_ == <<"q","_">>
SYM_ == <<"s","y","m","_">>

(* <<C-level name, name after generated_name_override, compiler symbol>> *)
NamesOf(c, i, ret, rtok) ==
  LET b == BaseName(c, i, ret, rtok) IN
  CASE c.shape = "keyword" -> <<KwPool[c.kw], KwPool[c.kw], KwPool[c.kw]>>
    [] c.shape = "dollar" -> <<b \o <<"$", "x">>, b \o <<"$", "x">>, b \o <<"$", "x">>>>
    [] c.shape = "kwtail" -> LET n == KwPool[c.kw] \o <<"_">> IN <<n, n, n>>
    [] c.shape = "dollartail" ->       \* rust_mangle of the neighbour's "dollar" name (same signature assumed)
         LET n == BaseName(c, 1 - i, ret, rtok) \o <<"_", "x", "_">> IN <<n, n, n>>
    [] c.shape = "asm" -> <<b, b, SYM_ \o b>>
    [] c.shape = "asmu" -> <<b, b, <<"_">> \o b>>
    [] c.shape = "renamed" ->
         LET inner == (IF c.kind = "gvar" THEN VAR_ ELSE FUNCTION_) \o b \o _NAME IN
         <<ZZ \o inner, inner, ZZ \o inner>>
    [] OTHER -> <<b, b, b>>

(***************************************************************************)
(* predictions                                                             *)
(***************************************************************************)
AbiOf(kind) == CASE kind = "msabi" -> "win64" [] kind = "vectorcall" -> "vectorcall" [] OTHER -> "C"

CbToks(fp, k) == [j \in DOMAIN fp.args |-> (k + j) % NTok(fp.args[j])]
CbCode(args, toks) ==
  IF \E i \in DOMAIN args : args[i].k = "fp" /\ toks[i] >= 1
    THEN LET i == CHOOSE i \in DOMAIN args : args[i].k = "fp" IN Code(CbToks(args[i], toks[i]))
    ELSE 0 - 1

LinkOut(l) == [kind |-> l.kind, name |-> Str(l.name)]

EndFn(ret, rtok, redecl, useov) ==
  /\ cur.kind \notin {"none", "gvar"}
  /\ Len(cur.args) - cur.npad = cur.want /\ Len(cur.va) = cur.wantva
  /\ cur.kind = "noreturn" => ret = Void
  /\ cur.kind \in {"msabi", "variadic"} => ret \in ValueTypes \cup {Void}
  /\ rtok < NTok(ret)
  /\ RetSet = "int" => rtok = 0
  /\ (FixedToks /\ RetSet # "int") => rtok = FixedTok(ret, 3)
  /\ useov => opt.abiov # "none" /\ cur.kind = "fn"
  /\ redecl => cur.kind = "fn"
  /\ LET i == Len(lib)
         nm == NamesOf(cur, i, ret, rtok)
         cname == nm[1]  name == nm[2]  csym0 == nm[3]
         linkov == IF opt.plink THEN Q_ \o name ELSE None
         (* with --prefix-link-name the library is built with prefixed symbols *)
         csym == IF opt.plink THEN Q_ \o name ELSE csym0
         variadic == cur.kind = "variadic"
         d == [name |-> name, mangled |-> IF opt.distrust THEN None ELSE csym0, linkov |-> linkov, abi |-> AbiOf(cur.kind),
               variadic |-> variadic, internal |-> cur.kind = "static", mkind |-> "fn", template |-> FALSE]
         o == [wrapStatic |-> FALSE, suffix |-> <<>>,
               abiOverride |-> IF useov THEN (name :> opt.abiov) ELSE <<>>]
         parsed == ~(cur.kind = "inline" /\ ~opt.inl)
         r == IF parsed THEN FnStep(d, o, seen, ovl)
                        ELSE [emitted |-> FALSE, why |-> "inline", seen |-> seen, ovl |-> ovl]
         pred == IF r.emitted
                   THEN [emitted |-> TRUE, why |-> "", ident |-> Str(r.ident), link |-> LinkOut(r.link),
                         abi |-> r.abi,
                         sig |-> RustSig(r.abi, cur.args, variadic, ret, cur.kind = "noreturn", opt.cnaming),
                         code |-> Code(cur.toks \o cur.vatoks), cbcode |-> CbCode(cur.args, cur.toks),
                         rtok |-> rtok, sym |-> Str(RustSym("elf", r.abi, r.ident, r.link, 0, variadic))]
                   ELSE [emitted |-> FALSE, why |-> r.why]
     IN /\ lib' = Append(lib, [i |-> i, kind |-> cur.kind, shape |-> cur.shape, cname |-> Str(cname),
                               name |-> Str(name), csym |-> Str(csym),
                               args |-> [j \in DOMAIN cur.args |-> cur.args[j].id], toks |-> cur.toks,
                               va |-> [j \in DOMAIN cur.va |-> cur.va[j].id], vatoks |-> cur.vatoks,
                               ret |-> ret.id, rtok |-> rtok, redecl |-> redecl, abiov |-> useov,
                               pred |-> pred])
        /\ seen' = r.seen /\ ovl' = r.ovl
  /\ cur' = NoCur
  /\ UNCHANGED <<opt, vseen>>

(* a global: C initialises it with token k, Rust reads it; Rust stores token k2, C reads it *)
EndVar(t, const, k, k2) ==
  /\ cur.kind = "gvar" /\ k < NTok(t) /\ k2 < NTok(t)
  /\ t.k = "fp" => k <= 1 /\ k2 <= 1
  /\ FixedToks => k = FixedTok(t, 1) /\ k2 = FixedTok(t, 2)
  /\ LET i == Len(lib)
         nm == NamesOf(cur, i, t, k + (IF const THEN 10 ELSE 0))
         name == nm[2]
         linkov == IF opt.plink THEN Q_ \o name ELSE None
         csym == IF opt.plink THEN Q_ \o name ELSE nm[3]
         d == [name |-> name, mangled |-> IF opt.distrust THEN None ELSE nm[3], linkov |-> linkov, const |-> const, template |-> FALSE]
         r == VarStep(d, vseen)
         pred == IF r.emitted
                   THEN [emitted |-> TRUE, why |-> "", ident |-> Str(r.ident), link |-> LinkOut(r.link),
                         mut |-> r.mut, rustty |-> RustTy(t, opt.cnaming),
                         sym |-> Str(RustSymVar("elf", r.ident, r.link))]
                   ELSE [emitted |-> FALSE, why |-> r.why]
     IN /\ lib' = Append(lib, [i |-> i, kind |-> "gvar", shape |-> cur.shape, cname |-> Str(nm[1]),
                               name |-> Str(name), csym |-> Str(csym), ty |-> t.id, const |-> const,
                               tok |-> k, tok2 |-> k2, pred |-> pred])
        /\ vseen' = r.vseen
  /\ cur' = NoCur
  /\ UNCHANGED <<opt, seen, ovl>>

Next ==
  \/ \E s \in Shapes, k \in Kinds, ar \in MinArity..MaxArity, w \in 1..(IF NFns > 1 THEN 5 ELSE 1) :
       \E pi \in (IF Pad /\ k # "gvar" THEN 0..6 ELSE {0}), pd \in (IF Pad /\ k # "gvar" THEN {0, 8} ELSE {0}) :
         Start(s, k, pi, pd, ar, w)
  \/ \E t \in ArgPool, k \in 0..5 : AddArg(t, k)
  \/ \E t \in VaTypes, k \in 0..5 : AddVa(t, k)
  \/ \E ret \in RetPool, rtok \in 0..5, redecl \in Bools(OptSet = "all"), useov \in Bools(OptSet = "all") :
       EndFn(ret, rtok, redecl, useov)
  \/ \E t \in GlobalTypes, c \in BOOLEAN, k \in 0..5, k2 \in 0..5 : EndVar(t, c, k, k2)

Spec == Init /\ [][Next]_vars

(* the type table the renderer works from: structure and lowering come from the spec *)
Ids(ts) == [j \in DOMAIN ts |-> ts[j].id]
TypeRow(t) == [id |-> t.id, k |-> t.k, ntok |-> NTok(t), rust |-> RustTy(t, FALSE), rustcn |-> RustTy(t, TRUE),
               args |-> IF t.k = "fp" THEN Ids(t.args) ELSE <<>>,
               ret |-> IF t.k = "fp" THEN t.ret.id ELSE "",
               retrust |-> IF t.k = "fp" /\ t.ret.k # "void" THEN RustTy(t.ret, FALSE) ELSE ""]
ASSUME PrintT(<<"TYPES", ToJson([j \in DOMAIN AllTypeSeq |-> TypeRow(AllTypeSeq[j])])>>)

Done == Len(lib) = NFns /\ cur = NoCur
Emitted == Done => PrintT(<<"LIB", ToJson([opt |-> opt, fns |-> lib])>>)

(* what the generator itself guarantees: Rust names of one library are unique and every *)
(* emitted declaration is predicted to reach its symbol (the known-bad shape asmu aside) *)
UniqueIdents == \A i, j \in DOMAIN lib :
  (lib[i].pred.emitted /\ lib[j].pred.emitted /\ lib[i].pred.ident = lib[j].pred.ident) => i = j
PredictedSymbolsOK == \A i \in DOMAIN lib :
  (lib[i].pred.emitted /\ lib[i].shape # "asmu" /\ ~(lib[i].kind = "gvar" /\ opt.plink))
     => lib[i].pred.sym = lib[i].csym
=============================================================================
