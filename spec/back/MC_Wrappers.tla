----------------------------- MODULE MC_Wrappers -----------------------------
(***************************************************************************)
(* Bounded model of C16: all sequences of up to K functions of one header  *)
(* (static / external, variadic, va_list parameters, name shapes, C or     *)
(* C++ symbol mangling, link-name override) through FnStep with            *)
(* --wrap-static-fns, and the wrapper file codegen/serialize.rs writes.    *)
(* Switches Lang = "cxx", WithKeyword, WithLinkOv enable the shapes on     *)
(* which the code is known to produce a dangling binding: those configs    *)
(* must yield a counterexample (replayed on the real code by the check).   *)
(* Mutation removes one mechanism (sensitivity).                           *)
(***************************************************************************)
EXTENDS Wrappers, TLC

CONSTANTS K, Lang, WithKeyword, WithLinkOv, Mutation

Suffix == <<"_", "_", "x">>
F == <<"f">>
G == <<"g">>
KW == <<"f", "n">>

Mang(n, internal) == IF Lang = "cxx" THEN <<"_", "Z">> \o (IF internal THEN <<"L">> ELSE <<>>) \o <<"1">> \o n \o <<"i">>
                     ELSE n

Fn(name, internal, variadic, valist, nargs, linkov) ==
  [name |-> name, mangled |-> Mang(name, internal), linkov |-> linkov, abi |-> "C", variadic |-> variadic,
   internal |-> internal, mkind |-> "fn", template |-> FALSE, valist |-> valist, nargs |-> nargs,
   csym |-> Mang(name, internal), argbytes |-> 0]

Names == {F, G} \cup (IF WithKeyword THEN {KW} ELSE {})
Universe ==
  { Fn(n, i, v, va, na, IF lo THEN <<"q", "_">> \o n ELSE None) :
      n \in Names, i \in BOOLEAN, v \in BOOLEAN, va \in 0..2, na \in 0..3,
      lo \in (IF WithLinkOv THEN BOOLEAN ELSE {FALSE}) }

WellFormed(d) == /\ d.valist <= d.nargs
                 /\ d.variadic => d.nargs >= 1 /\ d.valist = 0

Opt == [wrapStatic |-> TRUE, suffix |-> Suffix, abiOverride |-> <<>>]

VARIABLES seen, ovl, out, sers, n
vars == <<seen, ovl, out, sers, n>>
Init == seen = {} /\ ovl = <<>> /\ out = {} /\ sers = <<>> /\ n = 0

Mut(d, r) ==
  CASE Mutation = "wrapVariadic" /\ d.internal /\ d.variadic /\ ~r.emitted /\ r.why = "variadic-static" ->
         [emitted |-> TRUE, why |-> "", ident |-> RustMangle(d.name), link |-> Mangled(d.name \o Suffix), abi |-> "C",
          wrapped |-> TRUE, wrapper |-> None, seen |-> r.seen, ovl |-> r.ovl]
    [] Mutation = "bindPlain" /\ r.emitted /\ r.wrapped -> [r EXCEPT !.link = NoLink, !.wrapped = FALSE, !.wrapper = None]
    [] Mutation = "defaultSuffix" /\ r.emitted /\ r.wrapped -> [r EXCEPT !.wrapper = d.name \o <<"_", "_", "e">>]
    [] OTHER -> r

Step(d) ==
  /\ n < K /\ n' = n + 1 /\ WellFormed(d)
  /\ LET r == Mut(d, FnStep(d, Opt, seen, ovl)) IN
     /\ seen' = r.seen /\ ovl' = r.ovl
     /\ out' = out \cup {[d |-> d, r |-> r, at |-> n]}
     /\ sers' = IF r.emitted /\ r.wrapped /\ r.wrapper # None THEN Append(sers, r.wrapper) ELSE sers

Next == \E d \in Universe : Step(d)
Spec == Init /\ [][Next]_vars

WrapperDefs == {sers[i] : i \in DOMAIN sers}
(* what the compiler makes linkable: external functions only *)
ExternSyms == {e.d.csym : e \in {x \in out : ~x.d.internal}}

InvNoDangling == NoDangling(out, ExternSyms, WrapperDefs, "elf")
InvBijection == WrapperPerBinding(out, WrapperDefs, "elf") /\ Cardinality(WrapperDefs) = Len(sers)
InvInternalNeverPlain == InternalNeverPlain(out)
InvVariadic == VariadicStaticUnbound(out)
InvExternalPlain == \A e \in out : (~e.d.internal /\ e.r.emitted) => ~e.r.wrapped
=============================================================================
