SPECIFICATION Spec
CONSTANTS
  Kinds = {"Static"}
  Abis = {"C", "system"}
  BAttrs = {"none", "a"}
  FKinds = {"FFn"}
  FAttrs = {"none"}
  MaxForeign = 1
  MaxLen = 4
  MaxInner = 2
  MaxDepth = 1
  MaxNodes = 6
  UnsChoices = {TRUE, FALSE}
  Uniform = TRUE
  Mutant = "none"
  Mode = "mc"
INVARIANTS InvItems InvModules InvMergeKey InvKindOrder InvIdempotent InvApply InvUniform
CHECK_DEADLOCK FALSE
