SPECIFICATION Spec
CONSTANTS
  K = 1
  Lang = "cxx"
  WithKeyword = FALSE
  WithLinkOv = FALSE
  Mutation = "none"
INVARIANTS InvNoDangling
CHECK_DEADLOCK FALSE
