---------------------------- MODULE Gen_Classes ----------------------------
(***************************************************************************)
(* Behaviour generator for the C++ part of C04 (thorough tier, executed on *)
(* the host): one class with methods (const / non-const), static methods,  *)
(* overloaded constructors and a destructor.  Predicted: the extern        *)
(* function of every member (identifier with overload suffix, receiver     *)
(* type, Rust function-pointer type), the `impl` wrapper (name, receiver,  *)
(* constructor MaybeUninit protocol returns Self) and the token-protocol   *)
(* checksum, which includes the token found in this->x (correct receiver). *)
(* Virtual members get the extern function (receiver *mut c_void for       *)
(* methods) but no `impl` wrapper (codegen_method returns early); they     *)
(* take part in the overload numbering in declaration order.               *)
(***************************************************************************)
EXTENDS Symbols, FFITypes, TLC, Json

CONSTANTS NMembers, MaxArity

ArgPool == { Sc("int"), Sc("uchar"), Sc("short"), Sc("long"), Sc("double"), Sc("float"),
             Ptr("pc_char", TRUE, Sc("char")), St("S8m"), St("S16id"), St("S17") }
RetPool == { Void, Sc("int"), Sc("double"), St("S8m"), St("S17") }
MNames == << <<"m">>, <<"n">> >>
Kinds == {"normal", "const", "static", "virtual", "ctor", "dtor", "vdtor"}
K_ == <<"K">>

VARIABLES members, cur, xtok
vars == <<members, cur, xtok>>
NoCur == [kind |-> "none"]
Init == members = <<>> /\ cur = NoCur /\ xtok \in 0..5

IsDtor(k) == k \in {"dtor", "vdtor"}
Start(kind, nm, ar, w) ==
  /\ cur = NoCur /\ Len(members) < NMembers
  /\ w <= (IF kind \in {"normal", "const"} THEN 3 ELSE 1)
  /\ kind \in {"ctor", "dtor", "vdtor"} => nm = 1
  /\ IsDtor(kind) => ar = 0 /\ ~\E i \in DOMAIN members : IsDtor(members[i].kind)
  /\ cur' = [kind |-> kind, nm |-> nm, args |-> <<>>, toks |-> <<>>, want |-> ar, w |-> w]
  /\ UNCHANGED <<members, xtok>>

AddArg(t, k) ==
  /\ cur.kind # "none" /\ Len(cur.args) < cur.want /\ k < NTok(t)
  /\ cur' = [cur EXCEPT !.args = Append(@, t), !.toks = Append(@, k)]
  /\ UNCHANGED <<members, xtok>>

SameSlot(a, b) == (a \in {"ctor"}) = (b \in {"ctor"})
End(ret, rtok) ==
  /\ cur.kind # "none" /\ Len(cur.args) = cur.want /\ rtok < NTok(ret)
  /\ cur.kind \in {"ctor", "dtor", "vdtor"} => ret = Void
  (* C++ overloading: parameter lists of one name must differ *)
  /\ \A i \in DOMAIN members :
       (SameSlot(members[i].kind, cur.kind) /\ members[i].nm = cur.nm /\ ~IsDtor(cur.kind)) => members[i].args # cur.args
  /\ members' = Append(members, [kind |-> cur.kind, nm |-> cur.nm, args |-> cur.args, toks |-> cur.toks,
                                 ret |-> ret, rtok |-> rtok])
  /\ cur' = NoCur /\ UNCHANGED xtok

Next == \/ \E k \in Kinds, nm \in DOMAIN MNames, ar \in 0..MaxArity, w \in 1..3 : Start(k, nm, ar, w)
        \/ \E t \in ArgPool, k \in 0..5 : AddArg(t, k)
        \/ \E r \in RetPool, k \in 0..5 : End(r, k)
Spec == Init /\ [][Next]_vars
Done == Len(members) = NMembers /\ cur = NoCur

(***************************************************************************)
(* predictions: CompInfo::codegen visits methods, then constructors, then  *)
(* the destructor; every member goes through Function::codegen (FnStep)    *)
(* and, unless virtual, through codegen_method (wrapper names)             *)
(***************************************************************************)
Order == LET idx == DOMAIN members
             meth == {i \in idx : members[i].kind \in {"normal", "const", "static", "virtual"}}
             ctor == {i \in idx : members[i].kind = "ctor"}
             dtor == {i \in idx : IsDtor(members[i].kind)}
             RECURSIVE Asc(_)
             Asc(S) == IF S = {} THEN <<>> ELSE LET m == CHOOSE m \in S : \A o \in S : m <= o IN <<m>> \o Asc(S \ {m})
         IN Asc(meth) \o Asc(ctor) \o Asc(dtor)

FnName(m) == CASE m.kind = "ctor" -> K_ [] IsDtor(m.kind) -> K_ \o <<"_","d","e","s","t","r","u","c","t","o","r">>
               [] OTHER -> MNames[m.nm]
WrapBase(m) == CASE m.kind = "ctor" -> <<"n","e","w">> [] IsDtor(m.kind) -> <<"d","e","s","t","r","u","c","t">>
                 [] OTHER -> MNames[m.nm]
Virtual(m) == m.kind \in {"virtual", "vdtor"}

RECURSIVE FreeName(_, _, _)
FreeName(base, used, c) == IF (base \o Dec(c)) \in used THEN FreeName(base, used, c + 1) ELSE base \o Dec(c)

RECURSIVE Walk(_, _, _, _, _)
Walk(order, seen, ovl, mnames, acc) ==
  IF order = <<>> THEN acc
  ELSE LET i == order[1]
           m == members[i]
       IN
            LET d == [name |-> K_ \o <<"_">> \o FnName(m), mangled |-> <<"Z">> \o Dec(i), linkov |-> None, abi |-> "C",
                      variadic |-> FALSE, internal |-> FALSE, mkind |-> "method", template |-> FALSE]
                r == FnStep(d, [wrapStatic |-> FALSE, suffix |-> <<>>, abiOverride |-> <<>>], seen, ovl)
                base == WrapBase(m)
                wname == IF base \in mnames THEN FreeName(base, mnames, 1) ELSE base
                this == CASE m.kind = "static" -> "" [] m.kind = "const" -> "*const K"
                          [] m.kind = "virtual" -> "*mut c_void" [] OTHER -> "*mut K"
                sigargs == (IF this = "" THEN "" ELSE this \o (IF m.args = <<>> THEN "" ELSE ", ")) \o JoinTys(m.args, FALSE)
            IN Walk(Tail(order), r.seen, r.ovl, IF Virtual(m) THEN mnames ELSE mnames \cup {wname},
                    acc @@ (i :> [emitted |-> TRUE, ident |-> Str(r.ident), linkkind |-> r.link.kind,
                                  wrapper |-> IF Virtual(m) THEN "" ELSE Str(wname),
                                  recv |-> CASE Virtual(m) -> "virtual" [] m.kind = "static" -> "none" [] m.kind = "ctor" -> "new"
                                             [] m.kind = "const" -> "&self" [] OTHER -> "&mut self",
                                  sig |-> "unsafe extern \"C\" fn(" \o sigargs \o ")" \o RustRet(m.ret, FALSE, FALSE),
                                  code |-> IF m.kind \in {"static", "ctor"} THEN Code(m.toks)
                                           ELSE IF IsDtor(m.kind) THEN 1000 + xtok
                                           ELSE Code(m.toks \o <<xtok>>),
                                  rtok |-> m.rtok]))

Preds == Walk(Order, {}, <<>>, {}, <<>>)
Out == [xtok |-> xtok,
        members |-> [i \in DOMAIN members |->
                       [i |-> i, kind |-> members[i].kind, name |-> Str(FnName(members[i])),
                        args |-> [j \in DOMAIN members[i].args |-> members[i].args[j].id], toks |-> members[i].toks,
                        ret |-> members[i].ret.id, rtok |-> members[i].rtok, pred |-> Preds[i]]]]
Emitted == Done => PrintT(<<"CLASS", ToJson(Out)>>)

Ids(ts) == [j \in DOMAIN ts |-> ts[j].id]
TypeRow(t) == [id |-> t.id, k |-> t.k, ntok |-> NTok(t), rust |-> RustTy(t, FALSE), rustcn |-> RustTy(t, TRUE),
               args |-> IF t.k = "fp" THEN Ids(t.args) ELSE <<>>,
               ret |-> IF t.k = "fp" THEN t.ret.id ELSE "",
               retrust |-> IF t.k = "fp" /\ t.ret.k # "void" THEN RustTy(t.ret, FALSE) ELSE ""]
ASSUME PrintT(<<"TYPES", ToJson([j \in DOMAIN AllTypeSeq |-> TypeRow(AllTypeSeq[j])])>>)
=============================================================================
