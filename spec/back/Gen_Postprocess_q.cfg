SPECIFICATION Spec
CONSTANTS
  Kinds = {"Struct", "Use"}
  Abis = {"C", "system"}
  BAttrs = {"none", "a"}
  FKinds = {"FFn"}
  FAttrs = {"none", "a"}
  MaxForeign = 1
  MaxLen = 3
  MaxInner = 2
  MaxDepth = 1
  MaxNodes = 4
  UnsChoices = {TRUE}
  Uniform = TRUE
  Mutant = "none"
  Mode = "gen"
INVARIANTS Emit
CHECK_DEADLOCK FALSE
