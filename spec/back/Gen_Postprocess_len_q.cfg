SPECIFICATION Spec
CONSTANTS
  Kinds = {"Struct", "Type"}
  Abis = {"C"}
  BAttrs = {"none", "a"}
  FKinds = {"FFn"}
  FAttrs = {"none"}
  MaxForeign = 1
  MaxLen = 4
  MaxInner = 2
  MaxDepth = 0
  MaxNodes = 8
  UnsChoices = {TRUE}
  Uniform = TRUE
  Mutant = "none"
  Mode = "gen"
INVARIANTS Emit
CHECK_DEADLOCK FALSE
