---------------------------- MODULE Trace_Symbols ----------------------------
(***************************************************************************)
(* Validation of observations of the real code against Symbols.tla         *)
(* (impl -> spec).  Input: NDJSON ($TRACE), one line per foreign item that *)
(* the real bindgen emitted for a declaration whose compiler symbol is     *)
(* known (nm / llvm-nm of the clang object):                               *)
(*   {ev:"obs", case, target, kind:"fn"|"var", abi, variadic, argbytes,    *)
(*    ident:[chars], link:{kind, name:[chars]}, csym:[chars],              *)
(*    wanted:[chars] (the symbol the declaration must bind: compiler's, or *)
(*    the user's link-name override), defined: bool (nm: csym is defined   *)
(*    by the object with the right symbol class), referenced: bool | null  *)
(*    (nm: the Rust object references RustSym; null = not executed),       *)
(*    pred:{ident, link} (what Gen_* predicted, for DRIFT), shape }        *)
(* One state per consumed line.  Property predicate (violation):           *)
(*    RustSym(target, abi, ident, link) = wanted  /\  defined              *)
(* Environment conformance (model error, reported separately):             *)
(*    referenced # FALSE                                                   *)
(* Shape (DRIFT): ident / link equal to the prediction.                    *)
(***************************************************************************)
EXTENDS Symbols, Json, IOUtils, TLC

Rec == ndJsonDeserialize(IOEnv.TRACE)

VARIABLES l, viol, drift, envbad, nobs
vars == <<l, viol, drift, envbad, nobs>>

Init == l = 1 /\ viol = <<>> /\ drift = <<>> /\ envbad = <<>> /\ nobs = 0

Cap(s, x) == IF Len(s) < 400 THEN Append(s, x) ELSE s
Link(o) == [kind |-> o.link.kind, name |-> o.link.name]

Sym(o) == IF o.kind = "fn"
            THEN RustSym(o.target, o.abi, o.ident, Link(o), o.argbytes, o.variadic)
            ELSE RustSymVar(o.target, o.ident, Link(o))

Step ==
  /\ l <= Len(Rec)
  /\ LET o == Rec[l]
         ok == Sym(o) = o.wanted /\ o.defined
         shapeok == o.pred.ident = o.ident /\ o.pred.link.kind = o.link.kind /\ o.pred.link.name = o.link.name
     IN /\ viol' = IF ok THEN viol
                   ELSE Cap(viol, [case |-> o.case, shape |-> o.shape, kind |-> o.kind, target |-> o.target,
                                   ident |-> Str(o.ident), rustsym |-> Str(Sym(o)), wanted |-> Str(o.wanted),
                                   defined |-> o.defined])
        /\ drift' = IF shapeok THEN drift
                    ELSE Cap(drift, [case |-> o.case, ident |-> Str(o.ident), pred |-> Str(o.pred.ident),
                                     link |-> Str(o.link.name), predlink |-> Str(o.pred.link.name)])
        /\ envbad' = IF o.referenced = "no"
                       THEN Cap(envbad, [case |-> o.case, ident |-> Str(o.ident), rustsym |-> Str(Sym(o))])
                       ELSE envbad
  /\ nobs' = nobs + 1
  /\ l' = l + 1

Spec == Init /\ [][Step]_vars

Finished == l = Len(Rec) + 1
Report == Finished =>
  /\ PrintT(<<"VIOL", ToJson(viol)>>)
  /\ PrintT(<<"DRIFT", ToJson(drift)>>)
  /\ PrintT(<<"ENVBAD", ToJson(envbad)>>)
  /\ PrintT(<<"COUNTS", ToJson([obs |-> nobs])>>)

(* every line consumed *)
Post == TLCGet("stats").diameter = Len(Rec) + 1
=============================================================================
