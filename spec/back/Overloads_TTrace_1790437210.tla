---- MODULE Overloads_TTrace_1790437210 ----
EXTENDS Sequences, TLCExt, Overloads, Toolbox, Naturals, TLC

_expression ==
    LET Overloads_TEExpression == INSTANCE Overloads_TEExpression
    IN Overloads_TEExpression!expression
----

_trace ==
    LET Overloads_TETrace == INSTANCE Overloads_TETrace
    IN Overloads_TETrace!trace
----

_inv ==
    ~(
        TLCGet("level") = Len(_TETrace)
        /\
        ebases = (<<"new1", "Chan", "Chan1">>)
        /\
        enames = (<<"new1", "Chan", "Chan1">>)
        /\
        mnames = (<<"new1", "new", "new1">>)
        /\
        fnames = (<<"new1">>)
        /\
        decls = (<<"new1", "<ctor>", "<ctor>">>)
        /\
        counter = ([send |-> 0, new1 |-> 1, Chan1 |-> 0])
        /\
        nctors = (2)
    )
----

_init ==
    /\ counter = _TETrace[1].counter
    /\ nctors = _TETrace[1].nctors
    /\ ebases = _TETrace[1].ebases
    /\ fnames = _TETrace[1].fnames
    /\ decls = _TETrace[1].decls
    /\ mnames = _TETrace[1].mnames
    /\ enames = _TETrace[1].enames
----

_next ==
    /\ \E i,j \in DOMAIN _TETrace:
        /\ \/ /\ j = i + 1
              /\ i = TLCGet("level")
        /\ counter  = _TETrace[i].counter
        /\ counter' = _TETrace[j].counter
        /\ nctors  = _TETrace[i].nctors
        /\ nctors' = _TETrace[j].nctors
        /\ ebases  = _TETrace[i].ebases
        /\ ebases' = _TETrace[j].ebases
        /\ fnames  = _TETrace[i].fnames
        /\ fnames' = _TETrace[j].fnames
        /\ decls  = _TETrace[i].decls
        /\ decls' = _TETrace[j].decls
        /\ mnames  = _TETrace[i].mnames
        /\ mnames' = _TETrace[j].mnames
        /\ enames  = _TETrace[i].enames
        /\ enames' = _TETrace[j].enames

\* Uncomment the ASSUME below to write the states of the error trace
\* to the given file in Json format. Note that you can pass any tuple
\* to `JsonSerialize`. For example, a sub-sequence of _TETrace.
    \* ASSUME
    \*     LET J == INSTANCE Json
    \*         IN J!JsonSerialize("Overloads_TTrace_1790437210.json", _TETrace)

=============================================================================

 Note that you can extract this module `Overloads_TEExpression`
  to a dedicated file to reuse `expression` (the module in the 
  dedicated `Overloads_TEExpression.tla` file takes precedence 
  over the module `Overloads_TEExpression` below).

---- MODULE Overloads_TEExpression ----
EXTENDS Sequences, TLCExt, Overloads, Toolbox, Naturals, TLC

expression == 
    [
        \* To hide variables of the `Overloads` spec from the error trace,
        \* remove the variables below.  The trace will be written in the order
        \* of the fields of this record.
        counter |-> counter
        ,nctors |-> nctors
        ,ebases |-> ebases
        ,fnames |-> fnames
        ,decls |-> decls
        ,mnames |-> mnames
        ,enames |-> enames
        
        \* Put additional constant-, state-, and action-level expressions here:
        \* ,_stateNumber |-> _TEPosition
        \* ,_counterUnchanged |-> counter = counter'
        
        \* Format the `counter` variable as Json value.
        \* ,_counterJson |->
        \*     LET J == INSTANCE Json
        \*     IN J!ToJson(counter)
        
        \* Lastly, you may build expressions over arbitrary sets of states by
        \* leveraging the _TETrace operator.  For example, this is how to
        \* count the number of times a spec variable changed up to the current
        \* state in the trace.
        \* ,_counterModCount |->
        \*     LET F[s \in DOMAIN _TETrace] ==
        \*         IF s = 1 THEN 0
        \*         ELSE IF _TETrace[s].counter # _TETrace[s-1].counter
        \*             THEN 1 + F[s-1] ELSE F[s-1]
        \*     IN F[_TEPosition - 1]
    ]

=============================================================================



Parsing and semantic processing can take forever if the trace below is long.
 In this case, it is advised to uncomment the module below to deserialize the
 trace from a generated binary file.

\*
\*---- MODULE Overloads_TETrace ----
\*EXTENDS IOUtils, Overloads, TLC
\*
\*trace == IODeserialize("Overloads_TTrace_1790437210.bin", TRUE)
\*
\*=============================================================================
\*

---- MODULE Overloads_TETrace ----
EXTENDS Overloads, TLC

trace == 
    <<
    ([ebases |-> <<>>,enames |-> <<>>,mnames |-> <<>>,fnames |-> <<>>,decls |-> <<>>,counter |-> [send |-> 0, new1 |-> 0, Chan1 |-> 0],nctors |-> 0]),
    ([ebases |-> <<"new1">>,enames |-> <<"new1">>,mnames |-> <<"new1">>,fnames |-> <<"new1">>,decls |-> <<"new1">>,counter |-> [send |-> 0, new1 |-> 1, Chan1 |-> 0],nctors |-> 0]),
    ([ebases |-> <<"new1", "Chan">>,enames |-> <<"new1", "Chan">>,mnames |-> <<"new1", "new">>,fnames |-> <<"new1">>,decls |-> <<"new1", "<ctor>">>,counter |-> [send |-> 0, new1 |-> 1, Chan1 |-> 0],nctors |-> 1]),
    ([ebases |-> <<"new1", "Chan", "Chan1">>,enames |-> <<"new1", "Chan", "Chan1">>,mnames |-> <<"new1", "new", "new1">>,fnames |-> <<"new1">>,decls |-> <<"new1", "<ctor>", "<ctor>">>,counter |-> [send |-> 0, new1 |-> 1, Chan1 |-> 0],nctors |-> 2])
    >>
----


=============================================================================

---- CONFIG Overloads_TTrace_1790437210 ----
CONSTANTS
    Base = { "send" , "new1" , "Chan1" }
    MaxDecls = 4
    MaxCtors = 3
    Probing = FALSE

INVARIANT
    _inv

CHECK_DEADLOCK
    \* CHECK_DEADLOCK off because of PROPERTY or INVARIANT above.
    FALSE

INIT
    _init

NEXT
    _next

CONSTANT
    _TETrace <- _trace

ALIAS
    _expression
=============================================================================
\* Generated on Sat Sep 26 15:40:11 UTC 2026