SPECIFICATION Spec
CONSTANTS
  Unmangled = {"variant_rust_alias"}
  Universe <- AllNames
INVARIANTS SiteSafe
CHECK_DEADLOCK FALSE
